#!/bin/sh
# usage: seed_eval.sh <ID> [worktree] [extra check ids...]
# Confirms an independently written property-breaking change and runs the
# check(s) against it.  Keeps patch/demo/notes under /verif/seeded/<ID>/ and
# writes eval.txt there.  /repo is restored afterwards.
id=$1; wt=${2:-/tmp/wt-$id}
if [ $# -ge 2 ]; then shift 2; else shift 1; fi
dst=/verif/seeded/${DST:-$id}
mkdir -p $dst
if [ -d "$wt/SEEDED" ]; then cp $wt/SEEDED/patch.diff $wt/SEEDED/demo.py $wt/SEEDED/notes.md $dst/ 2>/dev/null; cp $wt/SEEDED/fuzz.py $dst/ 2>/dev/null; fi
cd /repo || exit 2
[ -n "$(git status --porcelain --untracked-files=no)" ] && { echo "/repo dirty"; exit 2; }
keep=$(mktemp -d /var/tmp/evidence-keep.XXXXXX); cp -a /verif/evidence/. "$keep"/
{
echo "== demo on original /repo"
PYTHONPATH=/repo PYTHONWARNINGS=ignore timeout 600 /venv/bin/python $dst/demo.py 2>&1 | tail -3; echo "demo_original_exit=$?"
PYTHONPATH=/repo PYTHONWARNINGS=ignore timeout 600 /venv/bin/python $dst/demo.py >/dev/null 2>&1; echo "demo_original_exit=$?"
echo "== apply patch"
git apply $dst/patch.diff && echo applied || { echo "PATCH DOES NOT APPLY"; exit 2; }
python3 /verif/tools/baseline_check.py /repo
echo "== demo on changed /repo"
PYTHONPATH=/repo PYTHONWARNINGS=ignore timeout 600 /venv/bin/python $dst/demo.py 2>&1 | tail -4
PYTHONPATH=/repo PYTHONWARNINGS=ignore timeout 600 /venv/bin/python $dst/demo.py >/dev/null 2>&1; echo "demo_changed_exit=$?"
for c in $id "$@"; do
  echo "== ./check $c (quick, seed 0)"
  (cd /verif && ./check $c 2>&1 | grep -E "^(C[0-9]+ tier|VIOLATION|INCONCLUSIVE|  violation)" | head -4 | cut -c1-500)
done
} > $dst/eval.txt 2>&1
git -C /repo checkout -- .
cp -a "$keep"/. /verif/evidence/; rm -rf "$keep"
cat $dst/eval.txt
