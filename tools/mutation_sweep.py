#!/usr/bin/env python3
"""mutation_sweep.py [--per-file N] [--seed S] [--out FILE] <repo-relative files...>

Development aid (not a registered check): systematic single-point changes to
modules of mundya/rig - chiefly the *supporting* modules the properties' code
depends on - to find changes that the repository's tests do not notice and
that no check reports.  For every sampled mutation site

  1. a scratch copy of the repository (no .git) is made under /var/tmp,
  2. the mutated file is written there (ast.unparse of the mutated tree),
  3. the 475-test baseline runs on the copy; mutants it kills are dropped,
  4. the quick tier of every check runs with RIG_REPO=<copy>, cheapest first,
     stopping at the first VIOLATION,
  5. one JSON line per mutant is appended to the output file.

Survivors of step 4 are either equivalent mutants or blind spots; they are
triaged by hand (DESIGN.md section 10.2).  Nothing is written to /repo.
"""
import argparse, ast, copy, json, os, random, shutil, subprocess, sys, time

REPO = os.environ.get("RIG_REPO", "/repo")
VERIF = os.path.dirname(os.path.dirname(os.path.abspath(__file__)))
ORDER = ["C15", "C05", "C16", "C08", "C04", "C02", "C03", "C11", "C12", "C19",
         "C13", "C01", "C10", "C07", "C14", "C06", "C18", "C17", "C20", "C09"]

CMP = {ast.Lt: ast.LtE, ast.LtE: ast.Lt, ast.Gt: ast.GtE, ast.GtE: ast.Gt,
       ast.Eq: ast.NotEq, ast.NotEq: ast.Eq, ast.In: ast.NotIn,
       ast.NotIn: ast.In, ast.Is: ast.IsNot, ast.IsNot: ast.Is}
BIN = {ast.Add: ast.Sub, ast.Sub: ast.Add, ast.LShift: ast.RShift,
       ast.RShift: ast.LShift, ast.BitAnd: ast.BitOr, ast.BitOr: ast.BitAnd,
       ast.Mult: ast.FloorDiv, ast.FloorDiv: ast.Mult, ast.Mod: ast.FloorDiv}


def sites(tree):
    """-> [(description, path of child indices)] for every mutation site"""
    out = []
    doc_ids = set()
    for node in ast.walk(tree):
        if isinstance(node, (ast.Module, ast.ClassDef, ast.FunctionDef)) and \
                node.body and isinstance(node.body[0], ast.Expr) and \
                isinstance(getattr(node.body[0], "value", None), ast.Constant):
            doc_ids.add(id(node.body[0].value))
    for i, node in enumerate(ast.walk(tree)):
        ln = getattr(node, "lineno", 0)
        if isinstance(node, ast.Compare) and len(node.ops) == 1 and \
                type(node.ops[0]) in CMP:
            out.append((i, "cmp", ln))
        elif isinstance(node, ast.BinOp) and type(node.op) in BIN:
            out.append((i, "bin", ln))
        elif isinstance(node, ast.BoolOp):
            out.append((i, "bool", ln))
        elif isinstance(node, ast.UnaryOp) and isinstance(node.op, ast.Not):
            out.append((i, "not", ln))
        elif isinstance(node, ast.Constant) and id(node) not in doc_ids:
            if isinstance(node.value, bool):
                out.append((i, "flip", ln))
            elif isinstance(node.value, int) and abs(node.value) < 1 << 33:
                out.append((i, "inc", ln))
                out.append((i, "dec", ln))
        elif isinstance(node, ast.If):
            out.append((i, "if-not", ln))
    return out


def apply(tree, site):
    idx, kind, _ = site
    node = list(ast.walk(tree))[idx]
    if kind == "cmp":
        node.ops[0] = CMP[type(node.ops[0])]()
    elif kind == "bin":
        node.op = BIN[type(node.op)]()
    elif kind == "bool":
        node.op = ast.Or() if isinstance(node.op, ast.And) else ast.And()
    elif kind == "not":
        node.operand = ast.UnaryOp(op=ast.Not(), operand=node.operand)
    elif kind == "flip":
        node.value = not node.value
    elif kind == "inc":
        node.value = node.value + 1
    elif kind == "dec":
        node.value = node.value - 1
    elif kind == "if-not":
        node.test = ast.UnaryOp(op=ast.Not(), operand=node.test)
    return tree


RELEVANT = [
    ("routing_table/", ["C04", "C01", "C10", "C17"]),
    ("place_and_route/route", ["C03", "C01", "C17"]),
    ("place_and_route/place", ["C02", "C01", "C17"]),
    ("place_and_route/allocate", ["C05", "C01", "C17"]),
    ("place_and_route/", ["C01", "C10", "C14", "C02", "C03", "C05", "C17"]),
    ("bitfield", ["C08", "C17"]),
    ("geometry", ["C11", "C19", "C03", "C18"]),
    ("links", ["C11", "C03", "C01"]),
    ("type_casts", ["C16"]),
    ("machine_control/regions", ["C12", "C09"]),
    ("machine_control/packets", ["C15", "C06"]),
    ("machine_control/scp_connection", ["C06", "C07", "C18"]),
    ("machine_control/boot", ["C20", "C17"]),
    ("machine_control/struct_file", ["C20", "C07", "C14"]),
    ("machine_control/bmp_controller", ["C18", "C14"]),
    ("machine_control/", ["C07", "C13", "C09", "C10", "C14", "C18", "C20", "C06"]),
    ("utils/contexts", ["C18", "C13", "C17"]),
    ("scripts/", ["C14", "C20", "C18"]),
]


def order_for(rel):
    first = []
    for frag, ids in RELEVANT:
        if frag in rel:
            first += [i for i in ids if i not in first]
            break
    return first + [c for c in ORDER if c not in first]


def run_checks(copy_dir, timeout, rel=""):
    env = dict(os.environ, RIG_REPO=copy_dir, VERIF_SEED="0")
    seen = []
    for cid in order_for(rel):
        try:
            p = subprocess.run([os.path.join(VERIF, "check"), cid],
                               capture_output=True, text=True, env=env,
                               timeout=timeout, cwd=VERIF)
        except subprocess.TimeoutExpired:
            seen.append((cid, "timeout", ""))
            continue
        v = [l.strip() for l in p.stdout.splitlines()
             if l.startswith("  violation")]
        if p.returncode == 1:
            return cid, (v[0][:160] if v else "VIOLATION"), seen
        if p.returncode != 0:
            inc = [l for l in p.stdout.splitlines() if "INCONCLUSIVE" in l]
            seen.append((cid, "exit %d" % p.returncode,
                         inc[0][:120] if inc else ""))
    return None, None, seen


def main():
    ap = argparse.ArgumentParser()
    ap.add_argument("--per-file", type=int, default=6)
    ap.add_argument("--seed", type=int, default=1)
    ap.add_argument("--out", default="/var/tmp/mutation_sweep.jsonl")
    ap.add_argument("--check-timeout", type=int, default=900)
    ap.add_argument("files", nargs="+")
    a = ap.parse_args()
    rng = random.Random(a.seed)
    work = "/var/tmp/mutsweep-%d" % os.getpid()
    for rel in a.files:
        src = open(os.path.join(REPO, rel)).read()
        tree = ast.parse(src)
        all_sites = sites(tree)
        pick = rng.sample(all_sites, min(a.per_file, len(all_sites)))
        for site in pick:
            t0 = time.time()
            mtree = apply(copy.deepcopy(tree), site)
            mutated = ast.unparse(mtree)
            if mutated == ast.unparse(tree):
                continue
            # the changed line(s), as text
            a_, b_ = ast.unparse(tree).splitlines(), mutated.splitlines()
            diff = [(x, y) for x, y in zip(a_, b_) if x != y][:2]
            shutil.rmtree(work, ignore_errors=True)
            shutil.copytree(REPO, work, ignore=shutil.ignore_patterns(
                ".git", "__pycache__", "*.pyc"))
            open(os.path.join(work, rel), "w").write(mutated)
            rec = dict(file=rel, line=site[2], kind=site[1])
            try:
                old_line = src.splitlines()[site[2] - 1].strip()
            except IndexError:
                old_line = ""
            rec["source_line"] = old_line[:120]
            rec["change"] = [[x.strip()[:100], y.strip()[:100]]
                             for x, y in diff]
            b = subprocess.run(["python3", os.path.join(VERIF, "tools",
                                                        "baseline_check.py"),
                                work], capture_output=True, text=True)
            rec["tests"] = "pass" if b.returncode == 0 else "killed"
            if b.returncode == 0:
                cid, what, seen = run_checks(work, a.check_timeout, rel)
                rec["reported_by"] = cid
                rec["as"] = what
                rec["not_held"] = seen
            rec["seconds"] = round(time.time() - t0)
            with open(a.out, "a") as f:
                f.write(json.dumps(rec) + "\n")
            print(json.dumps(rec), flush=True)
    shutil.rmtree(work, ignore_errors=True)


if __name__ == "__main__":
    main()
