#!/bin/sh
# usage: coverage_report.sh <ID> [tier]
# Development aid: which lines of the files a property is anchored in does its
# workload never execute?  (line coverage of /repo/rig under the check)
id=$1; tier=${2:-quick}
d=$(mktemp -d /var/tmp/rvcov.XXXXXX)
cd /verif && RV_COVERAGE=$d ./check $id --tier $tier | head -2
files=$(python3 -c "
import json
for l in open('/verif/properties.jsonl'):
    p=json.loads(l)
    if p['id']=='$id': print(' '.join('/repo/'+f for f in p['anchors']['files']))
")
cd $d && /venv/bin/python -m coverage combine -q --data-file=$d/combined $d/cov.* >/dev/null 2>&1
/venv/bin/python -m coverage report --data-file=$d/combined -m --include="$(echo $files | tr ' ' ',')" 2>&1 | cut -c1-400
rm -rf $d
