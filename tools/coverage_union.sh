#!/bin/sh
# usage: coverage_union.sh "<ID> <ID> ..." <file pattern(s) comma separated>
d=$(mktemp -d /var/tmp/rvcov.XXXXXX)
cd /verif; for id in $1; do RV_COVERAGE=$d ./check $id >/dev/null 2>&1; done
cd $d && /venv/bin/python -m coverage combine -q --data-file=$d/combined $d/cov.* >/dev/null 2>&1
/venv/bin/python -m coverage report --data-file=$d/combined -m --include="$2" 2>&1 | grep -v "SyntaxWarning\|^  \"\"\"\|^  re_" | cut -c1-900
rm -rf $d
