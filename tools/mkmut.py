#!/usr/bin/env python3
"""mkmut.py <ID-name> <repo-relative file> <old text> <new text> [count]
Creates selftest/<ID-name>.diff (a property-breaking change used to validate
the monitors) by editing /repo, diffing and restoring."""
import subprocess, sys
name, path, old, new = sys.argv[1:5]
full = "/repo/" + path
s = open(full).read()
n = s.count(old)
if n != 1:
    sys.exit("pattern occurs %d times" % n)
open(full, "w").write(s.replace(old, new))
d = subprocess.run(["git", "-C", "/repo", "diff"], capture_output=True, text=True).stdout
subprocess.run(["git", "-C", "/repo", "checkout", "--", "."], check=True)
open("/verif/selftest/%s.diff" % name, "w").write(d)
print("wrote selftest/%s.diff (%d lines)" % (name, d.count("\n")))
