#!/bin/sh
# usage: with_patch.sh <patch.diff | revert:<sha>> <check id> [more ids...]
# Applies the change to /repo's working tree, runs the quick checks, undoes it.
p="$1"; shift
cd /repo || exit 2
if [ -n "$(git status --porcelain --untracked-files=no)" ]; then echo "/repo dirty"; exit 2; fi
case "$p" in
  revert:*) git show "${p#revert:}" | git apply -R || exit 2 ;;
  *) git apply "$p" || exit 2 ;;
esac
rc=0
# evidence/ must only ever hold records of runs on the unchanged tree: keep it
# aside while the changed tree is being checked
keep=$(mktemp -d /var/tmp/evidence-keep.XXXXXX); cp -a /verif/evidence/. "$keep"/
for id in "$@"; do
  (cd /verif && ./check "$id" ${TIER:+--tier $TIER} 2>&1 | grep -E "^(C[0-9]+ tier|VIOLATION|INCONCLUSIVE|  violation)" | cut -c1-400)
done
git -C /repo checkout -- .
cp -a "$keep"/. /verif/evidence/; rm -rf "$keep"
