#!/usr/bin/env python3
"""Regenerate MANIFEST.json from the property modules' metadata."""
import importlib, json, os, sys
sys.path.insert(0, "/verif")
ALL = ["C%02d" % i for i in range(1, 21)]
NA_REASONS = {}
checks, na = [], []
for pid in ALL:
    path = "/verif/rv/props/%s.py" % pid.lower()
    if not os.path.exists(path):
        na.append(dict(property_id=pid, reason=NA_REASONS.get(
            pid, "check not built yet (planned: DESIGN.md section 4, %s); "
                 "nothing is claimed for it" % pid)))
        continue
    m = importlib.import_module("rv.props." + pid.lower())
    checks.append(dict(
        property_id=pid,
        quick_cmd="./check %s --tier quick" % pid,
        thorough_cmd="./check %s --tier thorough" % pid,
        evidence_file="/verif/evidence/%s.json" % pid,
        replay_cmd_template="./check %s --replay {path}" % pid,
        engine="rv",
        level_claimed=dict(category=m.LEVEL, text=m.LEVEL_TEXT,
                           design_ref="DESIGN.md section 4, " + pid),
        level_note=m.LEVEL_NOTE,
        technique=m.TECHNIQUE))
fixes = [l.split()[0] for l in os.popen(
    "git -C /repo log --format='%h %s' | grep ' fix:'").read().splitlines()]
man = dict(
    version=1,
    setup_cmd="./setup.sh",
    hooks=dict(guard="RIG_VERIF",
               enable="no source hooks exist in /repo: the harness instruments "
                      "rig from outside (rebinding socket/select/time module "
                      "attributes, wrapping module-level functions, "
                      "sys.monitoring on anchored functions); the checks export "
                      "RIG_VERIF=1 for uniformity but rig never reads it",
               baseline_off_cmd="python3 /verif/tools/baseline_check.py /repo",
               source_commits=[], add_only=True),
    engines=[dict(name="rv", path="/verif/rv",
                  serves_properties=[c["property_id"] for c in checks],
                  kind_free_text="runtime monitors (post-condition, reference-"
                  "model and event-log oracles) over generated, hostile and "
                  "fault-injected workloads driving the real rig code; "
                  "ASan+UBSan build of the rig_c_sa kernel")],
    checks=checks,
    not_applicable=na,
    notes="Exit codes: 0 held on everything observed, 1 violation (VIOLATION "
          "line + replay file), 2 inconclusive (a monitor floor was not met, a "
          "shard crashed or hit the watchdog). Repairs of genuine rig defects "
          "are the 'fix:' commits in /repo (%s); see known_findings.json and "
          "DESIGN.md section 2.1. The worker shards of every check take "
          "turns at four settings of the process the library runs in (plain; "
          "root logger at DEBUG; a working directory holding decoy files; "
          "python -O) and keep the interpreter's stock warning filters; the "
          "setting is stored with each violation and restored by --replay "
          "(DESIGN.md section 8)." % ", ".join(fixes))
json.dump(man, open("/verif/MANIFEST.json", "w"), indent=1)
print("MANIFEST: %d checks, %d not_applicable" % (len(checks), len(na)))
