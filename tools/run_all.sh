#!/bin/sh
# Run every registered check (quick by default) on the unchanged tree, then
# validate MANIFEST and evidence.  usage: tools/run_all.sh [quick|thorough]
cd "$(dirname "$0")/.." || exit 2
tier=${1:-quick}
rc=0
for id in $(python3 -c "import json; print(' '.join(c['property_id'] for c in json.load(open('MANIFEST.json'))['checks']))"); do
  start=$(date +%s)
  out=$(./check "$id" --tier "$tier" 2>&1); code=$?
  echo "$out" | grep -E "^(C[0-9]+ tier|VIOLATION|INCONCLUSIVE|KNOWN)" | cut -c1-160
  [ $code -ne 0 ] && { echo "  -> $id exit $code"; rc=1; }
done
python3-vt tools/validate.py | grep -v "^valid" || true
exit $rc
