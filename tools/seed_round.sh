#!/bin/sh
# usage: seed_round.sh <suffix letter> <worktree prefix, e.g. /tmp/wt9-> [ids...]
# Evaluates every finished seed of a round and prints one line per seed.
sfx=$1; pre=$2; shift 2
ids=${*:-C01 C02 C03 C04 C05 C06 C07 C08 C09 C10 C11 C12 C13 C14 C15 C16 C17 C18 C19 C20}
for id in $ids; do
  wt=$pre$id
  [ -f $wt/SEEDED/patch.diff ] && [ -f $wt/SEEDED/notes.md ] || { echo "$id  (not finished)"; continue; }
  [ -f /verif/seeded/$id$sfx/eval.txt ] && [ -z "$FORCE" ] && { echo "$id  (already evaluated)"; continue; }
  DST=$id$sfx /verif/tools/seed_eval.sh $id $wt > /dev/null 2>&1
  ev=/verif/seeded/$id$sfx/eval.txt
  ok=$(grep -c "475/475" $ev); d0=$(grep -c "demo_original_exit=0" $ev); d1=$(grep -c "demo_changed_exit=1" $ev)
  v=$(grep -m1 "  violation" $ev | cut -c1-150)
  echo "$id  base=$ok demo_orig_ok=$d0 demo_changed_fails=$d1  ${v:-NOT REPORTED}"
done
