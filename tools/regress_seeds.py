#!/usr/bin/env python3
"""regress_seeds.py [--out FILE] [--only PREFIX] [--jobs N]

Development aid: re-runs, for every kept property-breaking change
(seeded/*/patch.diff with meta.json "detected": true, and selftest/*.diff),
the quick tier of the check(s) recorded as reporting it, against a scratch
copy of the repository with the change applied (RIG_REPO=<copy>; /repo is not
touched), and lists the changes that are no longer reported.  Run it under
`vp run --with-repo` (RIG_REPO=$VP_RUN_REPO names the clean tree to copy)."""
import argparse, json, os, shutil, subprocess, sys, glob, re
from concurrent.futures import ThreadPoolExecutor

REPO = os.environ.get("RIG_REPO", "/repo")
VERIF = os.path.dirname(os.path.dirname(os.path.abspath(__file__)))


def jobs():
    out = []
    for mp in sorted(glob.glob(os.path.join(VERIF, "seeded", "*", "meta.json"))):
        m = json.load(open(mp))
        if not m.get("detected"):
            continue
        checks = sorted({k.split()[0] for k in m.get("detected_by", {})}) or \
            [m["property"]]
        out.append((m["id"], os.path.join(os.path.dirname(mp), "patch.diff"),
                    checks))
    for d in sorted(glob.glob(os.path.join(VERIF, "selftest", "*.diff"))):
        name = os.path.basename(d)[:-5]
        out.append(("selftest/" + name, d, [name.split("-")[0]]))
    return out


def one(job):
    name, patch, checks = job
    work = "/var/tmp/regress-%d-%s" % (os.getpid(), name.replace("/", "_"))
    shutil.rmtree(work, ignore_errors=True)
    shutil.copytree(REPO, work, ignore=shutil.ignore_patterns(
        ".git", "__pycache__", "*.pyc"))
    try:
        p = subprocess.run(["patch", "-p1", "-s", "-i", patch], cwd=work,
                           capture_output=True, text=True)
        if p.returncode:
            return dict(id=name, status="patch-failed",
                        detail=(p.stdout + p.stderr)[:300])
        seen = []
        for c in checks:
            env = dict(os.environ, RIG_REPO=work, VERIF_SEED="0",
                       VERIF_JOBS=os.environ.get("REGRESS_CHECK_JOBS", "8"))
            r = subprocess.run([os.path.join(VERIF, "check"), c],
                               capture_output=True, text=True, env=env,
                               cwd=VERIF, timeout=3600)
            kinds = sorted(set(re.findall(r"  violation ([\w-]+):", r.stdout)))
            seen.append((c, r.returncode, kinds))
            if r.returncode == 1:
                return dict(id=name, status="reported", by=c, kinds=kinds)
        return dict(id=name, status="NOT-REPORTED", seen=seen)
    finally:
        shutil.rmtree(work, ignore_errors=True)


def main():
    ap = argparse.ArgumentParser()
    ap.add_argument("--out", default="regress.jsonl")
    ap.add_argument("--only", default="")
    ap.add_argument("--jobs", type=int, default=2)
    a = ap.parse_args()
    js = [j for j in jobs() if j[0].startswith(a.only) or
          j[0].split("/")[-1].startswith(a.only)]
    bad = 0
    with ThreadPoolExecutor(a.jobs) as ex:
        for rec in ex.map(one, js):
            with open(a.out, "a") as f:
                f.write(json.dumps(rec) + "\n")
            if rec["status"] != "reported":
                bad += 1
            print(json.dumps(rec)[:300], flush=True)
    print("%d changes, %d not reported" % (len(js), bad))


if __name__ == "__main__":
    main()
