#!/usr/bin/env python3
"""seed_meta.py <seed dir name> <property> <change> <needs> [history]
Writes seeded/<name>/meta.json from eval.txt, and regenerates seeded/README.md."""
import json, os, re, sys
def write(name, prop, change, needs, history=None):
    d = "/verif/seeded/%s" % name
    ev = open(d + "/eval.txt").read()
    viol = re.findall(r"  violation ([\w-]+):", ev)
    meta = dict(
        id=name, property=prop,
        origin="written by a fresh sub-agent given only the property text and a scratch worktree of /repo" +
               (" (second round: told only which spot an earlier contributor had changed, to force a different mechanism)" if name.endswith("b") else ""),
        change=change, needs_to_manifest=needs,
        confirmed=dict(patch_applies_to_repo_head="applied" in ev, baseline_475_pass="475/475" in ev,
                       demo_passes_on_original="demo_original_exit=0" in ev, demo_fails_on_changed="demo_changed_exit=1" in ev),
        ran=["DST=%s tools/seed_eval.sh %s <worktree>   (demo on /repo, git apply, tools/baseline_check.py, demo again, ./check %s quick seed 0, git checkout)" % (name, prop, prop)],
        detected_by={prop + " quick": sorted(set(viol))} if viol else {},
        detected="VIOLATION property=%s" % prop in ev,
        history=history or "detected by the quick tier at seed 0 without any change to the check")
    json.dump(meta, open(d + "/meta.json", "w"), indent=1)
    return meta
def readme():
    rows = []
    for name in sorted(os.listdir("/verif/seeded")):
        mp = "/verif/seeded/%s/meta.json" % name
        if os.path.exists(mp):
            m = json.load(open(mp))
            rows.append("| %s | %s | %s | %s | %s |" % (
                name, m["change"], m["needs_to_manifest"],
                ", ".join("%s: %s" % (k, "/".join(v)) for k, v in m["detected_by"].items()) or "NOT DETECTED",
                "first try" if m["history"].startswith("detected by the quick") else
                "not reported: outside the property's quantifier / documented contract (see meta.json)" if not m["detected"] else
                "by another property's check (see meta.json)" if m["history"].startswith("not a C") or m["history"].startswith("NOT reported by C01") or (m["history"].startswith("not reported by C") and "as it stood" in m["history"]) else
                "after strengthening (see meta.json)"))
    n = len(rows); late = sum("after strengthening" in r for r in rows)
    out = sum("not reported:" in r for r in rows)
    other = sum("by another property" in r for r in rows)
    open("/verif/seeded/README.md", "w").write("""# Seeded property-breaking changes (written independently)

Each directory holds a change to mundya/rig written by a fresh sub-agent that was
given **only the text of one property** and its own scratch git worktree of /repo
(nothing from /verif): `patch.diff`, the agent's demonstration `demo.py` (passes
on the original code, fails with the change) and `notes.md`, plus `eval.txt`
(what `tools/seed_eval.sh` printed: demo on /repo, `git apply`, the 475-test
baseline, demo again, the quick check at seed 0, `git checkout`) and `meta.json`.
Directories ending in `b`, `c`, `d` come from later rounds in which the agent was told
only which spot the first contributor had changed, so that it had to pick a
different mechanism. None of the changes is ever committed to /repo.

All %d keep the 475 baseline tests green and are confirmed by their own
demonstration; %d were reported by the quick tier of their property's check as
it stood, %d were missed at first and led to stronger generators, %d are
reported by another property's check (the one whose statement they really
break), and %d are deliberately not reported because they only show outside
what the property quantifies over - argument *types* outside the documented
contract (round 7), local socket send errors, the alignment of an empty range
(round 9) - each with its reason in the `history` field of its meta.json and
in DESIGN.md section 10.1.

| id | change | needs to manifest | reported by (violation kinds) | detected |
|----|--------|-------------------|-------------------------------|----------|
""" % (n, n - late - out - other, late, other, out) + "\n".join(rows) + "\n")
if __name__ == "__main__":
    if len(sys.argv) > 4:
        m = write(*sys.argv[1:6])
        print(m["id"], m["detected"], m["detected_by"])
    readme()
