#!/usr/bin/env python3
"""Run the pinned baseline command of mundya/rig and compare against
/root/.vp/BASELINE.json (every stable_pass test must still pass).
Usage: baseline_check.py [repo_dir]      exit 0 = all baseline tests pass."""
import json, os, subprocess, sys, tempfile
import xml.etree.ElementTree as ET

repo = sys.argv[1] if len(sys.argv) > 1 else "/repo"
base = json.load(open("/root/.vp/BASELINE.json"))
want = set(base["stable_pass"])
with tempfile.TemporaryDirectory(dir="/var/tmp") as d:
    xml = os.path.join(d, "j.xml")
    env = dict(os.environ)
    env.pop("RIG_VERIF", None)
    subprocess.run(["/venv/bin/python", "-m", "pytest", "-q", "-p",
                    "no:cacheprovider", "--timeout=900",
                    "--continue-on-collection-errors", "--junitxml=" + xml],
                   cwd=repo, env=env, stdout=subprocess.DEVNULL,
                   stderr=subprocess.DEVNULL)
    passed = set()
    n = 0
    for tc in ET.parse(xml).getroot().iter("testcase"):
        n += 1
        if not any(c.tag in ("failure", "error", "skipped") for c in tc):
            passed.add("%s::%s" % (tc.get("classname"), tc.get("name")))
missing = sorted(want - passed)
print("baseline: %d/%d stable tests pass (%d passed of %d run)" %
      (len(want) - len(missing), len(want), len(passed), n))
for m in missing[:20]:
    print("  MISSING", m)
sys.exit(1 if missing else 0)
