"""Which anchored lines of rig did the workload reach?  sys.monitoring LINE
events restricted to the anchored code objects; each line is disabled after
its first hit so the cost is negligible.  Anchors are located by source text,
not by line number: (module, qualname, {label: marker substring})."""
import importlib
import inspect
import sys

TOOL = 3


class Reach(object):
    def __init__(self, anchors):
        self.anchors = anchors
        self.lines = {}     # (code, lineno) -> label
        self.hit = {}
        self.unknown = []
        self.codes = []

    def _resolve(self, modname, qualname):
        obj = importlib.import_module(modname)
        for part in qualname.split("."):
            obj = getattr(obj, part)
        obj = inspect.unwrap(obj) if callable(obj) else obj
        if isinstance(obj, property):
            obj = obj.fget
        return getattr(obj, "__func__", obj)

    def start(self):
        mon = sys.monitoring
        try:
            mon.use_tool_id(TOOL, "rv-reach")
        except ValueError:
            pass
        for modname, qualname, markers in self.anchors:
            try:
                f = self._resolve(modname, qualname)
                src, first = inspect.getsourcelines(f)
                code = f.__code__
            except Exception:
                for label in markers:
                    self.unknown.append("%s.%s:%s" % (modname, qualname, label))
                continue
            for label, text in markers.items():
                name = "%s:%s" % (qualname, label)
                nth = 0
                if isinstance(text, (tuple, list)):
                    text, nth = text
                found = [i for i, l in enumerate(src) if text in l]
                if len(found) <= nth:
                    self.unknown.append(name)
                    continue
                self.lines[(code, first + found[nth])] = name
                self.hit[name] = 0
            self.codes.append(code)
            mon.set_local_events(TOOL, code, mon.events.LINE)

        def on_line(code, lineno):
            name = self.lines.get((code, lineno))
            if name is not None:
                self.hit[name] += 1
                return None     # keep counting anchored lines
            return mon.DISABLE
        mon.register_callback(TOOL, mon.events.LINE, on_line)

    def stop(self):
        mon = sys.monitoring
        for code in self.codes:
            mon.set_local_events(TOOL, code, 0)
        mon.register_callback(TOOL, mon.events.LINE, None)
        try:
            mon.free_tool_id(TOOL)
        except Exception:
            pass

    def report(self):
        return dict(hit=self.hit, unknown=self.unknown)
