"""Entry point of every check.

  ./check <ID> [--tier quick|thorough] [--seed N] [--replay FILE] [--jobs N]

Shards the property's workload over worker subprocesses, merges what the
monitors observed, writes evidence/<ID>.json, prints VIOLATION /
KNOWN-FINDING / INCONCLUSIVE lines.  exit 0 held, 1 violation, 2 inconclusive.
"""
import argparse
import ast
import importlib
import json
import os
import subprocess
import sys
import tempfile
import time

from . import core

PY = "/venv/bin/python"


def known_findings():
    path = os.path.join(core.VERIF, "known_findings.json")
    if not os.path.exists(path):
        return []
    return json.load(open(path))["findings"]


def classify(prop_id, viol, listed):
    """-> ('known', entry) or ('violation', None)"""
    key = viol.get("key")
    if key:
        for e in listed:
            if (e["property"] == prop_id and e["status"] == "known" and
                    e["key"] == key):
                return "known", e
    return "violation", None


def worker_env():
    env = dict(os.environ)
    env["PYTHONHASHSEED"] = "0"
    env["PYTHONPATH"] = core.VERIF + os.pathsep + env.get("PYTHONPATH", "")
    env["PYTHONDONTWRITEBYTECODE"] = "1"
    env["RIG_VERIF"] = "1"
    # workers keep the interpreter's stock warning filters (their output
    # goes to a log file): whether a warning the library promises is
    # *shown* depends on them and on what importing the library does to them
    env.pop("PYTHONWARNINGS", None)
    for k in ("OMP_NUM_THREADS", "OPENBLAS_NUM_THREADS", "MKL_NUM_THREADS"):
        env[k] = "1"
    return env


def run_shards(mod, prop_id, tier, seed, jobs, tmp, replay_case=None,
               replay_O=False):
    n_shards = getattr(mod, "SHARDS", {}).get(tier, 16 if tier == "quick"
                                              else 64)
    timeout = getattr(mod, "TIMEOUT", {}).get(tier, 600 if tier == "quick"
                                              else 6 * 3600)
    env = worker_env()
    # str / bytes hashing (hence the iteration order of sets and dicts keyed
    # by names) follows the seed: reproducible per seed, different between
    # seeds; seed 0 is the interpreter's unrandomised hashing
    env["PYTHONHASHSEED"] = str(seed % (1 << 32))
    if hasattr(mod, "worker_env"):
        env.update(mod.worker_env(tier))
    pending = list(range(n_shards))
    running = {}
    results, failures, crashes = [], [], []
    if replay_case is not None:
        pending = [0]
        n_shards = 1
    while pending or running:
        while pending and len(running) < jobs:
            i = pending.pop(0)
            # the process the library runs in is part of its input: shards
            # take turns at four ambient settings (see worker.ambient)
            ambient = replay_O if replay_case is not None else i % 4
            spec = dict(prop=prop_id, tier=tier, seed=seed, shard=i,
                        n_shards=n_shards, replay_case=replay_case,
                        ambient=int(ambient))
            sp = os.path.join(tmp, "spec%d.json" % i)
            op = os.path.join(tmp, "out%d.json" % i)
            json.dump(spec, open(sp, "w"))
            log = open(os.path.join(tmp, "log%d.txt" % i), "w")
            # every fourth shard runs the interpreter with assertions
            # compiled away (python -O): a deployment the library has to work
            # in, and nothing in the harness depends on assert statements
            env_i = env
            if ambient == 3:
                env_i = dict(env, PYTHONOPTIMIZE="1")
            p = subprocess.Popen([PY, "-m", "rv.worker", sp, op],
                                 cwd=core.VERIF, env=env_i, stdout=log,
                                 stderr=subprocess.STDOUT)
            running[i] = (p, time.time(), op, log)
        time.sleep(0.05)
        for i, (p, t0, op, log) in list(running.items()):
            rc = p.poll()
            if rc is None:
                if time.time() - t0 > timeout:
                    p.kill()
                    p.wait()
                    failures.append("shard %d: watchdog (%ds)" % (i, timeout))
                    del running[i]
                continue
            del running[i]
            log.close()
            logtxt = open(log.name).read()[-3000:]
            if rc != 0 or not os.path.exists(op):
                cur = None
                if os.path.exists(op + ".cur"):
                    try:
                        cur = json.load(open(op + ".cur"))
                    except Exception:
                        cur = None
                if getattr(mod, "CRASH_IS_VIOLATION", False) and cur and \
                        rc not in (None, 0):
                    crashes.append(dict(
                        kind="process-crash", key=None, cls=cur["cls"],
                        idx=cur["idx"], case_repr=cur["case_repr"],
                        msg="worker died with exit status %s while running "
                            "this case; log tail:\n%s" % (rc, logtxt[-1500:]),
                        detail={}))
                else:
                    failures.append("shard %d: exit %s\n%s" % (i, rc, logtxt))
                continue
            r = json.load(open(op))
            r["log_tail"] = logtxt
            results.append(r)
    return results, failures, n_shards, crashes


def merge(results):
    import collections
    m = dict(evaluations=0, monitors=collections.Counter(),
             outcomes=collections.Counter(), classes=collections.Counter(),
             extra=collections.Counter(), nontrivial=set(), samples=[],
             violations=[], errors=[], import_errors=[],
             sets=collections.defaultdict(set),
             anchors=collections.Counter(), anchors_unknown=set(),
             dropped=0)
    for r in sorted(results, key=lambda r: r["spec"]["shard"]):
        if r.get("import_error"):
            m["import_errors"].append(r["import_error"])
            continue
        m["evaluations"] += r["evaluations"]
        for k in ("monitors", "outcomes", "classes", "extra"):
            m[k].update(r[k])
        m["nontrivial"].update(r["nontrivial"])
        m["violations"].extend(r["violations"])
        m["dropped"] += r.get("violations_dropped", 0)
        for k, v in r.get("findings_dropped", {}).items():
            m.setdefault("findings_dropped", collections.Counter())[k] += v
        m["errors"].extend(r["errors"])
        for k, v in r["sets"].items():
            m["sets"][k].update(v)
        have = {s["cls"] for s in m["samples"]}
        for s in r["samples"]:
            if s["cls"] not in have and len(m["samples"]) < 6:
                m["samples"].append(s)
                have.add(s["cls"])
        a = r.get("anchors")
        if a:
            m["anchors"].update(a["hit"])
            m["anchors_unknown"].update(a["unknown"])
    return m


def write_replay(prop_id, tier, seed, v, n):
    d = os.path.join(core.VERIF, "replays")
    os.makedirs(d, exist_ok=True)
    path = os.path.join(d, "%s-%s-s%d-%d.json" % (prop_id, tier, seed, n))
    json.dump(dict(property=prop_id, tier=tier, seed=seed, cls=v.get("cls"),
                   idx=v.get("idx"), kind=v["kind"], msg=v["msg"],
                   key=v.get("key"), detail=v.get("detail"),
                   ambient=v.get("ambient", 0),
                   case_repr=v.get("case_repr")), open(path, "w"), indent=1)
    return path


def do_replay(mod, prop_id, path):
    """Re-run exactly the recorded case in a worker subprocess (same
    environment as the checks, e.g. the sanitizer preload of C02)."""
    rec = json.load(open(path))
    with tempfile.TemporaryDirectory(prefix="rv-replay-", dir="/var/tmp") as t:
        if rec.get("case_repr") is None:
            print("witness is an import failure of the module under test:")
            print(rec.get("msg"))
            results, failures, _, crashes = run_shards(
                mod, prop_id, rec.get("tier", "quick"), 0, 1, t,
                replay_case="None")
            bad = any(r.get("import_error") for r in results)
            if bad:
                print("VIOLATION property=%s replay=%s" % (prop_id, path))
            return 1 if bad else 0
        results, failures, _, crashes = run_shards(
            mod, prop_id, rec.get("tier", "quick"), rec.get("seed", 0), 1, t,
            replay_case=rec["case_repr"], replay_O=int(rec.get("ambient", 0)))
    m = merge(results)
    print("outcome:", dict(m["outcomes"]), "monitors:", dict(m["monitors"]))
    for f in failures:
        print("INCONCLUSIVE property=%s reason=%s" % (prop_id, f[:1500]))
    for e in m["errors"]:
        print("INCONCLUSIVE property=%s reason=harness error\n%s" %
              (prop_id, e["tb"]))
    listed = known_findings()
    rc = 2 if (failures or m["errors"]) else 0
    for r in results:
        if r.get("import_error"):
            print(r["import_error"])
            print("VIOLATION property=%s replay=%s" % (prop_id, path))
            return 1
    for v in m["violations"] + crashes:
        what, e = classify(prop_id, v, listed)
        v = dict(v)
        v.pop("case_repr", None)
        print(json.dumps(v, indent=1)[:3000])
        if what == "known":
            print("KNOWN-FINDING: property=%s %s" % (prop_id, e["what"]))
        else:
            print("VIOLATION property=%s replay=%s" % (prop_id, path))
            rc = 1
    return rc


def main(argv=None):
    ap = argparse.ArgumentParser()
    ap.add_argument("prop")
    ap.add_argument("--tier", default=os.environ.get("VERIF_TIER") or "quick",
                    choices=["quick", "thorough"])
    ap.add_argument("--seed", type=int,
                    default=int(os.environ.get("VERIF_SEED") or 0))
    ap.add_argument("--replay")
    ap.add_argument("--jobs", type=int,
                    default=int(os.environ.get("VERIF_JOBS") or
                                min(16, os.cpu_count() or 4)))
    a = ap.parse_args(argv)
    prop_id = a.prop.upper()
    sys.path.insert(0, core.VERIF)
    mod = importlib.import_module("rv.props." + prop_id.lower())
    if a.replay:
        return do_replay(mod, prop_id, a.replay)

    t0 = time.time()
    with tempfile.TemporaryDirectory(prefix="rv-%s-" % prop_id,
                                     dir="/var/tmp") as tmp:
        results, failures, n_shards, crashes = run_shards(
            mod, prop_id, a.tier, a.seed, a.jobs, tmp)
    m = merge(results)
    m["violations"].extend(crashes)
    listed = known_findings()
    violations, known = [], {}
    accounted = set()
    for v in m["violations"]:
        what, e = classify(prop_id, v, listed)
        accounted.add(v["kind"])
        if what == "known":
            known.setdefault(e["key"], [e, 0, v])
            known[e["key"]][1] += 1
        else:
            violations.append(v)
    inconclusive = list(failures)
    # the verdict and the histogram come from the same run: a violation
    # outcome that no kept record accounts for means records were lost
    lost = sorted(k[len("violation:"):] for k in m["outcomes"]
                  if k.startswith("violation:") and
                  k[len("violation:"):] not in accounted)
    if lost:
        inconclusive.append("outcomes show violations of kind(s) %s that no "
                            "record accounts for" % ", ".join(lost))
    for e in m["errors"][:5]:
        inconclusive.append("harness error in %s[%s]:\n%s" %
                            (e["cls"], e["idx"], e["tb"]))
    floors = getattr(mod, "FLOORS", {})
    floors = floors.get(a.tier, floors) if floors and isinstance(
        next(iter(floors.values())), dict) else floors
    if not m["import_errors"]:
        for name, floor in floors.items():
            got = m["monitors"].get(name, 0) + m["anchors"].get(name, 0)
            if got < floor:
                inconclusive.append("monitor %s evaluated %d < floor %d" %
                                    (name, got, floor))
        if len(m["nontrivial"]) < 2:
            inconclusive.append("fewer than 2 distinct non-trivial cases")

    replay_paths = []
    if m["import_errors"]:
        v = dict(kind="import-failure", msg=m["import_errors"][0], cls=None,
                 idx=None, case_repr=None)
        violations.insert(0, v)
    for n, v in enumerate(violations[:10]):
        replay_paths.append(write_replay(prop_id, a.tier, a.seed, v, n))

    wall = time.time() - t0
    level = getattr(mod, "LEVEL", "exploration")
    cov = dict(
        evaluations=m["evaluations"],
        distinct_nontrivial=len(m["nontrivial"]),
        rule=mod.RULE,
        samples=m["samples"] or [{"note": "no case ran"}],
        exhaustive=bool(getattr(mod, "EXHAUSTIVE", {}).get(a.tier, False)),
        bound=getattr(mod, "BOUND", {}).get(a.tier),
        monitor_evaluations=dict(m["monitors"]),
        monitor_floors=dict(floors),
        outcomes=dict(m["outcomes"]),
        generator_classes=dict(m["classes"]),
        measured=dict(m["extra"]),
        distinct=dict((k, len(v)) for k, v in m["sets"].items()),
        anchors_reached=dict(m["anchors"]),
        anchors_not_located=sorted(m["anchors_unknown"]),
        shards=n_shards, shards_completed=len(results),
        known_findings_seen={
            k: n + m.get("findings_dropped", {}).get(k, 0)
            for k, (e, n, v) in known.items()},
        violation_kinds=sorted({v["kind"] for v in violations}),
        inconclusive_reasons=[s[:500] for s in inconclusive],
        verdict=("violated" if violations else
                 "inconclusive" if inconclusive else "held-on-observed"),
        repo=core.REPO,
    )
    ev = dict(property_id=prop_id, tier=a.tier, seed=a.seed, level=level,
              coverage=cov, assumptions=list(getattr(mod, "ASSUMPTIONS", [])),
              wall_s=round(wall, 2),
              violations=len(violations) + m["dropped"])
    os.makedirs(os.path.join(core.VERIF, "evidence"), exist_ok=True)
    evp = os.path.join(core.VERIF, "evidence", prop_id + ".json")
    json.dump(ev, open(evp + ".tmp", "w"), indent=1, sort_keys=True)
    os.replace(evp + ".tmp", evp)

    print("%s tier=%s seed=%d: %d cases (%d distinct non-trivial), %d shards, "
          "%.1fs" % (prop_id, a.tier, a.seed, m["evaluations"],
                     len(m["nontrivial"]), n_shards, wall))
    print("  outcomes: %s" % dict(m["outcomes"]))
    print("  monitors: %s" % dict(m["monitors"]))
    if m["anchors"]:
        print("  anchors : %s" % dict(m["anchors"]))
    for k, (e, n, v) in sorted(known.items()):
        print("KNOWN-FINDING: property=%s %s [key=%s, seen %d times]" %
              (prop_id, e["what"], k,
               n + m.get("findings_dropped", {}).get(k, 0)))
    if violations:
        for v, p in zip(violations, replay_paths):
            print("  violation %s: %s" % (v["kind"], str(v["msg"])[:600]))
            print("VIOLATION property=%s replay=%s" % (prop_id, p))
        return 1
    if inconclusive:
        for s in inconclusive:
            print("INCONCLUSIVE property=%s reason=%s" % (prop_id, s[:2000]))
        return 2
    return 0


if __name__ == "__main__":
    sys.exit(main())
