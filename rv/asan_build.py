"""Rebuild the rig_c_sa C annealing kernel (the only native code rig drives)
with clang AddressSanitizer + UndefinedBehaviourSanitizer and assertions on,
into a git-ignored cache directory.

  python -m rv.asan_build        -> prints the cache dir (builds if needed)

The instrumented module shadows the installed `_rig_c_sa` when the cache dir
is first on PYTHONPATH and the ASan runtime is LD_PRELOADed."""
import hashlib
import os
import shutil
import subprocess
import sys

from . import core

FLAGS = ["-fsanitize=address,undefined", "-fno-sanitize-recover=all",
         "-fno-omit-frame-pointer", "-g", "-O1", "-UNDEBUG"]


def source_dir():
    import rig_c_sa
    return os.path.dirname(rig_c_sa.__file__)


def runtime():
    out = subprocess.run(["clang", "-print-file-name=libclang_rt.asan-x86_64.so"],
                         capture_output=True, text=True).stdout.strip()
    return out if os.path.exists(out) else None


def cache_dir():
    src = source_dir()
    h = hashlib.sha1()
    for name in ("sa.c", "sa.h", "cffi_compile.py"):
        h.update(open(os.path.join(src, name), "rb").read())
    for root, _, files in sorted(os.walk(os.path.join(src, "usort"))):
        for f in sorted(files):
            h.update(open(os.path.join(root, f), "rb").read())
    h.update(" ".join(FLAGS).encode())
    return os.path.join(core.VERIF, ".build", "asan-" + h.hexdigest()[:12])


def build():
    """-> (dir, None) or (None, reason)"""
    rt = runtime()
    if rt is None or shutil.which("clang") is None:
        return None, "clang / ASan runtime not found"
    d = cache_dir()
    so = [f for f in (os.listdir(d) if os.path.isdir(d) else [])
          if f.startswith("_rig_c_sa") and f.endswith(".so")]
    if so:
        return d, None
    os.makedirs(d, exist_ok=True)
    src = source_dir()
    for name in ("sa.c", "sa.h", "cffi_compile.py"):
        shutil.copy(os.path.join(src, name), d)
    if os.path.isdir(os.path.join(src, "usort")):
        shutil.copytree(os.path.join(src, "usort"), os.path.join(d, "usort"),
                        dirs_exist_ok=True)
    script = (
        "import cffi_compile as c\n"
        "src = c.ffi._assigned_source\n"
        "kw = src[3]\n"
        "kw['extra_compile_args'] = %r\n"
        "kw['extra_link_args'] = ['-fsanitize=address,undefined', "
        "'-shared-libasan']\n"
        "c.ffi.compile(verbose=False)\n" % (FLAGS,))
    env = dict(os.environ, CC="clang", LDSHARED="clang -shared",
               CFLAGS="-UNDEBUG")
    p = subprocess.run([sys.executable, "-c", script], cwd=d, env=env,
                       capture_output=True, text=True)
    so = [f for f in os.listdir(d)
          if f.startswith("_rig_c_sa") and f.endswith(".so")]
    if p.returncode != 0 or not so:
        shutil.rmtree(d, ignore_errors=True)
        return None, "build failed: " + (p.stderr or p.stdout)[-800:]
    return d, None


def env_for_workers():
    """Environment additions that make a worker use the instrumented kernel;
    ({}, reason) when it cannot be built."""
    d, why = build()
    if d is None:
        return {}, why
    return {
        "LD_PRELOAD": runtime(),
        "ASAN_OPTIONS": "detect_leaks=0:abort_on_error=1:halt_on_error=1:"
                        "allocator_may_return_null=1",
        "UBSAN_OPTIONS": "halt_on_error=1:abort_on_error=1:print_stacktrace=1",
        "RV_ASAN_DIR": d,
    }, None


if __name__ == "__main__":
    sys.path.insert(0, core.REPO)
    d, why = build()
    print(d or ("ASAN BUILD UNAVAILABLE: " + why))
    sys.exit(0 if d else 1)
