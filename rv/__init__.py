"""Runtime-verification harness for mundya/rig (see /verif/DESIGN.md)."""
