"""C06 - SCP bursts complete each command exactly once despite loss and
reordering.

The real SCPConnection.send_scp_burst runs against a virtual-time network
(rv/sim/net.py) whose fault plan decides the fate of every transmitted
datagram.  Every command carries a unique id in arg1 which the simulated
machine echoes, so a callback identifies the command whose reply it was
handed.  The verdict comes from an offline checker over the recorded event
log (send / fate / recv / callback / return events on one virtual clock)."""
import importlib
import itertools
import struct

from ..core import check, Violation
from ..sim import net as simnet

ID = "C06"
IMPORTS = ['rig.machine_control.scp_connection']
LEVEL = "fault_enumeration"
TECHNIQUE = ("offline event-log checker (exactly-once callbacks, reply "
             "identity, retransmission count/spacing, window bound, outcome "
             "consistency) over a virtual-time fault-injecting network; "
             "systematic enumeration of per-datagram fault sequences")
LEVEL_TEXT = ("Every sequence of per-try outcomes over {ok, request lost, "
              "reply lost, reply delayed 1.5 / 3.5 timeouts, reply duplicated, "
              "retryable code, fatal code} is enumerated for small bursts "
              "(bounds in coverage.bound) and random schedules are driven on "
              "bursts of up to 60 commands with windows 1-8, tries 1-5, "
              "per-command extra timeouts and several consecutive bursts on "
              "one connection (late replies of burst i crossing burst i+1). "
              "The oracle is a checker over the recorded wire/callback "
              "history, so it judges what the client did on the wire, not "
              "what it believes it did.")
LEVEL_NOTE = ("Trusted: the virtual network (datagram semantics, recv "
              "truncation, select/time model) and the echo machine. Timing "
              "verdicts are on the virtual clock only.")
RULE = ("one case = one connection with 1-4 consecutive bursts and a fault "
        "schedule (or one block of enumerated schedules); non-trivial = at "
        "least one datagram of the case was lost, delayed beyond a timeout, "
        "duplicated or answered with an error code; distinct by case")
ASSUMPTIONS = [
    "network round trip is non-zero (2 ms virtual); a reply delayed so long "
    "that its sequence number has been re-used by a later command (the case "
    "the source marks XXX) is outside the explored space; wrapping of the "
    "16-bit counter while earlier commands are still unanswered IS explored "
    "(class seqwrap: > 65536 commands on one connection)",
    "retransmission spacing is checked with a slack of 1 ms against timeouts "
    ">= 50 ms (the deadline is computed just before the datagram is sent)",
    "the machine replies to every request it receives (the fault plan "
    "decides loss)",
]
FLOORS = {"burst_checked": 1500, "callback_identity": 3000,
          "retransmission_gap": 500, "timeout_outcome": 100,
          "fatal_outcome": 100, "window_bound": 2000,
          "late_reply_ignored": 30, "seq_wrapped_with_outstanding": 1,
          "SCPConnection.send_scp_burst:seq_skipped": 1}
ANCHORS = [("rig.machine_control.scp_connection",
            "SCPConnection.send_scp_burst",
            {"retransmit": "self.sock.send(outstanding.bytestring)",
             "timeout_raised": "raise TimeoutError(",
             "fatal_raised": "raise FatalReturnCodeError(rc, packet)",
             "reply_accepted": "outstanding_callbacks.appendleft(",
             "seq_skipped": ("seq = next(self.seq)", 1)})]
SHARDS = {"quick": 16, "thorough": 64}
EXHAUSTIVE = {"quick": False, "thorough": False}

ALPHA = ["ok", "lost", "rlost", "delay1.5", "delay3.5", "dup", "busy",
         "fatal"]
ENUM_QUICK = [(1, 1), (1, 2), (1, 3), (2, 1), (2, 2), (3, 1)]
ENUM_THOROUGH = ENUM_QUICK + [(1, 4), (2, 3), (3, 2), (4, 1), (1, 5), (5, 1)]
BOUND = {
    "quick": "complete enumeration of per-try outcome sequences over %r for "
             "(commands, tries) in %r and every window 1..commands; plus "
             "random schedules" % (ALPHA, ENUM_QUICK),
    "thorough": "complete enumeration for (commands, tries) in %r and every "
                "window 1..commands; plus random schedules" %
                (ENUM_THOROUGH,)}
BLOCK = 256
FATAL = [0x81, 0x83, 0x84, 0x85, 0x86, 0x87, 0x88, 0x89, 0x8a, 0x8b, 0x8c,
         0x8e, 0x8f]
SLACK = 1e-3


def enum_blocks(tier):
    out = []
    for n, T in (ENUM_QUICK if tier == "quick" else ENUM_THOROUGH):
        total = len(ALPHA) ** (n * T)
        for W in range(1, n + 1):
            for start in range(0, total, BLOCK):
                out.append((n, T, W, start, min(BLOCK, total - start)))
    return out


_blocks = {}


def plan(tier):
    _blocks[tier] = enum_blocks(tier)
    n = 8000 if tier == "quick" else 400000
    return [("enum", len(_blocks[tier])), ("random", n), ("multi", n),
            ("big", n // 6), ("seqwrap", 2 if tier == "quick" else 24)]


def rand_outcome(rng, p_fault):
    if rng.random() > p_fault:
        return "ok"
    k = rng.choice(["lost", "rlost", "delay", "dup", "busy", "sum", "fatal",
                    "lost", "rlost", "delay", "dup", "busy", "trail",
                    "late_rc"])
    if k == "trail":
        return ("trail", rng.choice([0x8d, 0x82] + FATAL[:3])) \
            if rng.random() < .5 else "ok"
    if k == "late_rc":
        return ("late_rc", rng.choice([0x8d, 0x82] + FATAL[:2]),
                rng.choice([0.5, 1.2, 2.5])) if rng.random() < .5 else "ok"
    if k == "delay":
        return ("delay", rng.choice([0.3, 0.9, 1.5, 2.5, 3.5, 5.2]))
    if k == "dup":
        return ("dup", rng.choice([0.0, 0.4, 1.2, 2.7, 6.0]))
    if k == "fatal":
        return ("fatal", rng.choice(FATAL)) if rng.random() < .25 else "ok"
    return k


def gen(cls, idx, rng, tier):
    if cls == "enum":
        if tier not in _blocks:
            _blocks[tier] = enum_blocks(tier)
        n, T, W, start, count = _blocks[tier][idx]
        return dict(kind="enum", n=n, T=T, W=W, start=start, count=count)
    if cls == "seqwrap":
        # one connection sends more than 2**16 commands while a few early
        # commands (adjacent sequence numbers) are still unanswered
        first = rng.choice([0, 1, 7, 300])
        return dict(kind="seqwrap", T=rng.choice([2, 3]), timeout=0.05,
                    W=rng.choice([3, 4, 6]),
                    n=65536 + first + rng.randint(4, 40),
                    stuck=[first + i for i in range(rng.choice([2, 2, 3]))
                           ][:2 if idx % 2 == 0 else 3],
                    stuck_extra=2000.0,
                    # answers to early commands turn up again this many
                    # commands later (never a multiple of 2**16, where the
                    # 16-bit sequence number legitimately comes round again)
                    stale=[(first + 50 + 7 * k_, d_) for k_, d_ in enumerate(
                        rng.sample([256, 1024, 4096, 8192, 16384, 32768,
                                    12288, 65535, 61440], 5))])
    n_bursts = 1 if cls == "random" else rng.randint(2, 4)
    T = rng.randint(1, 5)
    timeout = rng.choice([0.05, 0.1, 0.5])
    bursts = []
    p_fault = rng.choice([0.05, 0.2, 0.5])
    for _ in range(n_bursts):
        n = rng.randint(0, 12) if cls != "big" else rng.randint(20, 60)
        cmds = []
        for _ in range(n):
            extra = rng.choice([0.0, 0.0, 0.0, 0.05, 0.3])
            cmds.append((extra, [rand_outcome(rng, p_fault)
                                 for _ in range(T)]))
        bursts.append(dict(W=rng.randint(1, 8), cmds=cmds))
    return dict(kind="random", T=T, timeout=timeout, bursts=bursts,
                buffer_size=rng.choice([16, 64, 256]),
                seq_start=rng.choice([0, 0, 0, 65535, 65530, 65500,
                                      65536 - rng.randint(1, 80)]))


# ------------------------------------------------------------ run one case
class Echo(object):
    """Machine side: echoes the command id (arg1); counts executions."""

    def __init__(self):
        self.executed = {}

    def __call__(self, sock, addr, data):
        req = simnet.parse_scp(data)
        cid, = struct.unpack_from("<I", req["body"])
        self.executed[cid] = self.executed.get(cid, 0) + 1
        src = (0, 0) if (req["dest_x"], req["dest_y"]) == (255, 255) else None
        return simnet.make_reply(req, 0x80, (cid, 0xabc, self.executed[cid]),
                                 src=src)


def run_connection(T, timeout, bursts, buffer_size=256, seq_start=0,
                   stale=()):
    """Drive the real connection; -> list of (burst description, events)"""
    sc = importlib.import_module("rig.machine_control.scp_connection")
    net = simnet.Net()
    echo = Echo()
    net.add_host("board", echo)
    net.bind(sc)
    tries = {}

    first_request = {}
    stale_at = {}

    def plan_fn(net_, sock, data, n):
        req = simnet.parse_scp(data)
        cid, = struct.unpack_from("<I", req["body"])
        t = tries.get(cid, 0)
        tries[cid] = t + 1
        first_request.setdefault(cid, data)
        if cid in stale_at and t == 0 and stale_at[cid] in first_request:
            return [("replay", first_request[stale_at[cid]], 0.0),
                    ("ok", 0.0)]
        sched = schedule.get(cid, [])
        o = sched[t] if t < len(sched) else "ok"
        to = cmd_timeout[cid]
        if o == "ok":
            return [("ok", 0.0)]
        if o == "lost":
            return [("lost",)]
        if o == "rlost":
            return [("reply_lost",)]
        if o == "busy":
            return [("rc", 0x8d, 0.0)]
        if o == "sum":
            return [("rc", 0x82, 0.0)]
        if o == "delay1.5":
            return [("ok", 1.5 * to)]
        if o == "delay3.5":
            return [("ok", 3.5 * to)]
        if o == "dup":
            return [("dup", 0.0, 0.3 * to)]
        if o == "fatal":
            return [("rc", 0x87, 0.0)]
        if o[0] == "delay":
            return [("ok", o[1] * to)]
        if o[0] == "dup":
            return [("dup", 0.0, o[1] * to)]
        if o[0] == "fatal":
            return [("rc", o[1], 0.0)]
        if o[0] == "trail":
            # the command is answered OK and an error reply to the same
            # command (e.g. a delayed earlier one) arrives right behind it
            return [("ok", 0.0), ("rc", o[1], 0.0)]
        if o[0] == "late_rc":
            return [("rc", o[1], o[2] * to)]
        raise AssertionError(o)
    net.plan = plan_fn
    for i_, d_ in stale:            # command ids are 1-based positions
        stale_at[i_ + 1 + d_] = i_ + 1
    conn = sc.SCPConnection("board", n_tries=T, timeout=timeout)
    if seq_start and hasattr(conn, "seq"):
        # a long-lived connection: the 16-bit sequence counter is about to
        # wrap (the counter is advanced without sending anything)
        try:
            for _ in range(seq_start):
                next(conn.seq)
        except Exception:
            pass
    results = []
    next_id = 1
    schedule, cmd_timeout = {}, {}
    for b in bursts:
        calls, ids = [], []
        log_start = len(net.log)
        events = []
        for extra, sched in b["cmds"]:
            cid = next_id
            next_id += 1
            ids.append(cid)
            schedule[cid] = sched
            cmd_timeout[cid] = timeout + extra

            def cb(packet, cid=cid):
                net.log.append(("callback", net.clock.now, cid, bytes(packet)))
            # payloads: none, and bytes that mean something to text
            # formatting (the word 123 is "{"; error messages quote packets)
            data = [b"", b"", b"{\0\0\0", b"}\0\0\0{", b"{0}", b"{x!r:>9}",
                    b"%s %d %(a)s \\", bytes(range(120, 130)),
                    b"\xff\xfe{}\n"][cid % 9]
            # every seventh command goes to (255, 255), the documented
            # alias of the chip at the end of the connection - which answers
            # from its real coordinates
            dx_, dy_ = (255, 255) if cid % 7 == 3 else \
                (cid % 200, (cid >> 3) % 200)
            calls.append(sc.scpcall(dx_, dy_, cid % 18,
                                    2 + cid % 3, cid, cid ^ 0x55, 7,
                                    data, cb, extra))
        sel0 = net.n_select
        try:
            conn.send_scp_burst(buffer_size, b["W"], iter(calls))
            outcome = ("return", None, None)
        except sc.TimeoutError as e:
            outcome = ("timeout", getattr(e.packet, "arg1", None), repr(e))
        except sc.FatalReturnCodeError as e:
            outcome = ("fatal", getattr(e, "return_code", None), repr(e))
        except Exception as e:
            outcome = ("other", type(e).__name__, repr(e))
        # datagrams that had already arrived at the client's socket when the
        # client last looked, and were never read
        # (judged against the moment of the client's last recv() call: the
        # virtual clock creeps on with every time.time(), so "before the call
        # returned" would also catch datagrams arriving a microsecond after
        # the client had correctly found its socket empty)
        t_seen = conn.sock.t_last_recv
        unread = [bytes(d) for t_, _, d in sorted(conn.sock.inq)
                  if t_seen is not None and t_ <= t_seen]
        results.append(dict(ids=ids, W=b["W"], T=T, unread=unread,
                            timeouts={c: cmd_timeout[c] for c in ids},
                            outcome=outcome, t_end=net.clock.now,
                            events=net.log[log_start:],
                            selects=net.n_select - sel0))
        if outcome[0] != "return":
            # the connection object is still usable in principle, but the
            # bursts that follow would inherit unknown outstanding state of
            # the failed one only through late replies: keep going
            pass
    return results, sc


def judge_burst(ctx, r, sc_mod, earlier_ids):
    """Offline checker over one burst's event log."""
    ids, W, T = r["ids"], r["W"], r["T"]
    if r["outcome"][0] == "return" and ids:     # an empty burst reads nothing
        for d in r.get("unread", ()):
            rc = simnet.parse_scp(d)["cmd"]
            ctx.hit("arrived_datagram_left_unread")
            check(rc not in FATAL, "fatal-reply-ignored",
                  "the burst returned normally although a reply carrying the "
                  "fatal code %#x was waiting in the socket when the "
                  "client last read from it, and was left unread" % rc)
    idset = set(ids)
    sends = {c: [] for c in ids}        # times of transmissions
    seq_of = {}
    open_cmds = set()                   # first-sent and not yet OK-answered
    open_seq = {}                       # their sequence numbers
    ok_recv = {}                        # cid -> time of first OK reply recv
    callbacks = {}
    fatal_recv_t = None
    n_send = n_recv = 0
    faulty = False
    where = dict(W=W, T=T, outcome=r["outcome"][:2])
    for ev in r["events"]:
        kind, t = ev[0], ev[1]
        if kind == "send":
            n_send += 1
            req = simnet.parse_scp(ev[3])
            cid, = struct.unpack_from("<I", req["body"])
            check(cid in idset, "foreign-transmission",
                  "command %d (not of this burst) transmitted" % cid, **where)
            check(fatal_recv_t is None, "send-after-fatal",
                  "command %d transmitted after a fatal reply was received" %
                  cid, **where)
            if sends[cid]:
                ctx.hit("retransmission_gap")
                gap = t - sends[cid][-1]
                check(gap >= r["timeouts"][cid] - SLACK,
                      "retransmitted-too-early",
                      "command %d retransmitted %.6fs after the previous try, "
                      "timeout %.3fs" % (cid, gap, r["timeouts"][cid]),
                      **where)
                check(seq_of[cid] == req["seq"], "seq-changed-on-retry",
                      "command %d" % cid, **where)
            else:
                # window: commands first-sent and not yet OK-answered
                ctx.hit("window_bound")
                check(len(open_cmds) + 1 <= W, "window-exceeded",
                      "command %d first sent while %d commands are "
                      "unanswered (window %d)" % (cid, len(open_cmds), W),
                      **where)
                check(req["seq"] not in open_seq,
                      "seq-reused-while-outstanding",
                      "commands %r and %d share sequence number %d" %
                      (open_seq.get(req["seq"]), cid, req["seq"]), **where)
                seq_of[cid] = req["seq"]
                open_cmds.add(cid)
                open_seq[req["seq"]] = cid
            sends[cid].append(t)
            check(len(sends[cid]) <= T, "too-many-tries",
                  "command %d transmitted %d times, n_tries=%d" %
                  (cid, len(sends[cid]), T), **where)
        elif kind == "fate":
            if ev[4][0] != "ok" or ev[4][1] > 0:
                faulty = True
        elif kind == "recv":
            n_recv += 1
            rep = simnet.parse_scp(ev[3])
            if rep["cmd"] == 0x80:
                cid, = struct.unpack_from("<I", rep["body"])
                if cid in idset:
                    ok_recv.setdefault(cid, t)
                    if cid in open_cmds:
                        open_cmds.discard(cid)
                        if open_seq.get(seq_of.get(cid)) == cid:
                            del open_seq[seq_of[cid]]
                elif cid in earlier_ids:
                    ctx.hit("late_reply_ignored")
            elif rep["cmd"] not in (0x82, 0x8d):
                if fatal_recv_t is None:
                    fatal_recv_t = t
        elif kind == "callback":
            cid = ev[2]
            ctx.hit("callback_identity")
            check(cid in idset, "callback-for-foreign-command", str(cid),
                  **where)
            check(fatal_recv_t is None, "callback-after-fatal",
                  "callback of %d after a fatal reply" % cid, **where)
            rep = simnet.parse_scp(ev[3])
            rid, = struct.unpack_from("<I", rep["body"])
            check(rep["cmd"] == 0x80 and rid == cid and
                  rep["seq"] == seq_of.get(cid),
                  "callback-given-wrong-reply",
                  "callback of command %d was handed the reply to command %d "
                  "(rc %#x, seq %d)" % (cid, rid, rep["cmd"], rep["seq"]),
                  **where)
            callbacks[cid] = callbacks.get(cid, 0) + 1
            check(callbacks[cid] == 1, "callback-twice",
                  "callback of command %d invoked %d times" %
                  (cid, callbacks[cid]), **where)
            check(cid in ok_recv and ok_recv[cid] <= t, "callback-before-reply",
                  "command %d" % cid, **where)
    kind, arg, text = r["outcome"]
    ctx.hit("burst_checked")
    check(kind != "other", "unexpected-exception", "%s: %s" % (arg, text),
          **where)
    if fatal_recv_t is not None:
        ctx.hit("fatal_outcome")
        check(kind == "fatal", "fatal-code-not-raised",
              "a fatal return code was received but the burst ended with %s" %
              kind, **where)
    else:
        check(kind != "fatal", "fatal-raised-without-fatal-code", text,
              **where)
    if kind == "return":
        missing = [c for c in ids if callbacks.get(c, 0) != 1]
        check(not missing, "returned-without-callback",
              "burst returned but commands %r never had their callback" %
              missing, **where)
    elif kind == "timeout":
        ctx.hit("timeout_outcome")
        check(arg in idset, "timeout-names-foreign-packet", repr(arg), **where)
        check(len(sends[arg]) == T, "timeout-after-wrong-number-of-tries",
              "TimeoutError for command %d after %d transmissions, n_tries=%d"
              % (arg, len(sends[arg]), T), **where)
        check(arg not in ok_recv, "timeout-although-reply-received",
              "TimeoutError for command %d whose OK reply had been received" %
              arg, **where)
        last = sends[arg][-1]
        check(r["t_end"] - last >= r["timeouts"][arg] - SLACK,
              "timeout-raised-too-early",
              "TimeoutError %.6fs after the last try, timeout %.3fs" %
              (r["t_end"] - last, r["timeouts"][arg]), **where)
    bound = 3 * (n_send + n_recv) + 10
    check(r["selects"] <= bound, "no-bounded-progress",
          "%d select() calls for %d sends and %d receives" %
          (r["selects"], n_send, n_recv), **where)
    ctx.seen("event_kind_sequences",
             "".join(e[0][0] for e in r["events"] if e[0] != "fate")[:200])
    ctx.count("events", len(r["events"]))
    return faulty


def digits(v, base, n):
    out = []
    for _ in range(n):
        out.append(v % base)
        v //= base
    return out


def run(case, ctx):
    nt = False
    if case["kind"] == "enum":
        n, T, W = case["n"], case["T"], case["W"]
        for s in range(case["start"], case["start"] + case["count"]):
            d = digits(s, len(ALPHA), n * T)
            cmds = [(0.0, [ALPHA[d[c * T + t]] for t in range(T)])
                    for c in range(n)]
            results, sc = run_connection(T, 0.1, [dict(W=W, cmds=cmds)])
            try:
                f = judge_burst(ctx, results[0], sc, set())
            except Violation as v:
                v.detail["schedule"] = cmds
                raise
            nt = nt or f
        ctx.count("schedules_enumerated", case["count"])
        ctx.note(dict(commands=n, tries=T, window=W, first=case["start"],
                      schedules=case["count"]))
    elif case["kind"] == "seqwrap":
        cmds = []
        for i in range(case["n"]):
            if i in case["stuck"]:
                cmds.append((case["stuck_extra"], ["lost"]))
            else:
                cmds.append((0.0, []))
        results, sc = run_connection(case["T"], case["timeout"],
                                     [dict(W=case["W"], cmds=cmds)],
                                     stale=case.get("stale", ()))
        ctx.hit("stale_duplicate_delivered", len(case.get("stale", ())))
        r = results[0]
        judge_burst(ctx, r, sc, set())
        seqs_seen = {simnet.parse_scp(e[3])["seq"] for e in r["events"]
                     if e[0] == "send"}
        check(r["outcome"][0] == "return", "seqwrap-outcome",
              repr(r["outcome"][:2]))
        ctx.hit("seq_wrapped_with_outstanding")
        ctx.count("events", 0)
        nt = True
        ctx.note(dict(commands=case["n"], window=case["W"],
                      stuck=case["stuck"], distinct_seqs=len(seqs_seen)))
    else:
        results, sc = run_connection(case["T"], case["timeout"],
                                     case["bursts"], case["buffer_size"],
                                     case.get("seq_start", 0))
        if case.get("seq_start"):
            ctx.hit("connection_near_seq_wrap")
        earlier = set()
        for r in results:
            f = judge_burst(ctx, r, sc, earlier)
            nt = nt or f
            earlier |= set(r["ids"])
        ctx.note([dict(commands=len(r["ids"]), window=r["W"],
                       outcome=r["outcome"][:2], events=len(r["events"]),
                       trace="".join(e[0][0] for e in r["events"]
                                     if e[0] != "fate")[:120])
                  for r in results])
    if nt:
        ctx.mark_nontrivial()
    return "ok"
