"""C01 - multicast packets reach exactly the cores of their net's sinks.

The whole mapping chain (place, allocate, route, table generation, table
minimisation; by hand or through either wrapper) is run by the real code and
the resulting routing tables are loaded into an independent model of the
multicast router fabric: per chip the first matching entry decides; without a
match a packet that arrived on link L leaves on the opposite link and a locally
injected packet is dropped.  For every net one or more matching keys are
injected at the source's chip and the full delivery trace is compared with the
expected delivery set recomputed from (sinks, placements, allocations,
endpoint constraints)."""
import collections
import importlib
import random as _random

from ..core import check, Violation, Rejected
from ..gen import par

ID = "C01"
IMPORTS = ["rig.place_and_route", "rig.routing_table",
           "rig.place_and_route.wrapper", "rig.place_and_route.place.sa"]
LEVEL = "exploration"
TECHNIQUE = ("end-to-end reference-model monitor: multicast fabric simulator "
             "(first-match tables + default routing) fed with the real "
             "chain's routing tables; delivery trace vs expected delivery set")
LEVEL_TEXT = ("Generated application graphs (zero-core device vertices, "
              "fan-out, self-loops, repeated sinks, weights) on generated "
              "machines (1x1 to 12x12, torus and mesh, dead chips, dead links "
              "in one or both directions, resource exceptions, busy cores) "
              "with consistent constraint sets and orthogonal keys (distinct, "
              "shared-prefix with X bits, BitField generated) are mapped "
              "under a rotating product of placer x radius x minimiser x "
              "target x call path; every net's packets are then simulated hop "
              "by hop.  Randomised exploration of a configuration product no "
              "test enumerates; the oracle is independent of every stage.")
LEVEL_NOTE = ("Trusted: the fabric model (first-match, default routing, link "
              "liveness), the expected-delivery computation. Route-endpoint "
              "links are terminal and dead in the machine model (as for a "
              "real attached device).")
RULE = ("one case = one graph + machine + configuration; non-trivial = a "
        "mapping was produced, some net reaches >= 2 chips and the tables "
        "were shortened by minimisation or a packet was default-routed; "
        "distinct by case")
ASSUMPTIONS = [
    "nets have pairwise non-intersecting key/mask pairs",
    "route-endpoint links are dead in the machine model and terminal",
    "documented failures (InsufficientResourceError, InvalidConstraintError, "
    "MachineHasDisconnectedSubregion, MinimisationFailedError) end a case as "
    "rejected; on the easy class a mapping must be produced",
]
FLOORS = {"wrapper_without_monitor_reservation": 100, "wrapper_sdram_alignment": 100, "wrapper_own_resource_names": 50, "probed_machine": 100, "mapping_simulated": 150, "packet_injected": 800,
          "delivery_checked": 1500, "default_routed_hop": 100,
          "minimised_entry_hit": 100, "easy_must_map": 40}
SHARDS = {"quick": 16, "thorough": 64}
TIMEOUT = {"quick": 900, "thorough": 6 * 3600}
PLACERS = ["sa-c", "hilbert", "breadth_first", "rcm", "sequential", "rand",
           "sa-py"]
RADII = [0, 1, 3, 20]
MINIMISERS = ["none", "rde", "oc", "chain"]
PATHS = ["chain", "chain", "wrapper", "deprecated"]
CLASSES = ["easy", "faulty", "constrained", "devices", "tiny", "keys",
           "faulty_fanout", "probed", "crowded"]


def plan(tier):
    n = 1200 if tier == "quick" else 100000
    return [(c, n if c != "crowded" else n // 2) for c in CLASSES]


def gen_crowded(idx, rng, tier):
    """Many nets with adjacent keys on a small fault-free machine, so that
    every chip's table is long, partly default-routable and mergeable, and
    table-size targets that the first minimiser of the chain misses but a
    later one meets."""
    w, h = rng.randint(2, 5), rng.randint(2, 5)
    torus = rng.random() < .5
    m = dict(w=w, h=h, dead_chips=[],
             dead_links=[] if torus else sorted(par.wrap_links(w, h)))
    m["res"] = {"Cores": 18, "SDRAM": 1000, "SRAM": 100}
    m["exc"] = {}
    nv = rng.randint(w * h, 3 * w * h)
    vertices = [(i, {"Cores": rng.choice([1, 1, 2, 4])}) for i in range(nv)]
    nets = []
    for _ in range(rng.randint(12, 48)):
        src = rng.randrange(nv)
        fan = rng.choice([1, 1, 1, 2, 3])
        nets.append((src, [rng.randrange(nv) for _ in range(fan)], 1.0))
    base = rng.getrandbits(18) << 12
    step = rng.choice([1, 1, 2, 4])
    keys = [((base + i * step) & 0xffffffff, 0xffffffff)
            for i in range(len(nets))]
    return dict(machine=m, busy=[], vertices=vertices, nets=nets, keys=keys,
                kmode="distinct", constraints=[], path="chain",
                placer=rng.choice(["hilbert", "sequential", "rand", "rcm",
                                   "breadth_first"]),
                radius=rng.choice([1, 3, 20]),
                minimiser=rng.choice(["chain", "chain", "oc", "rde"]),
                target=rng.choice(["half", "per-chip", "per-chip", 3, 6, 10]),
                seed=rng.randrange(1 << 30), easy=False, rtr_free=1023)


def gen(cls, idx, rng, tier):
    side = 8 if tier == "quick" else 12
    if cls == "crowded":
        return gen_crowded(idx, rng, tier)
    if cls == "tiny":
        m = par.gen_faults(rng, "tiny")
    elif cls == "probed":
        m = par.gen_faults(rng, rng.choice(["none", "sparse", "deadchips",
                                            "mesh", "oneway"]), 6)
    elif cls == "faulty_fanout":
        m = par.gen_faults(rng, "dense", 12)
    elif cls == "faulty":
        m = par.gen_faults(rng, rng.choice(["sparse", "dense", "walls",
                                            "oneway", "deadchips",
                                            "mesh_faulty"]), side)
    else:
        m = par.gen_faults(rng, rng.choice(["none", "mesh", "sparse", "thin"]),
                           side)
    m["res"] = {"Cores": 18, "SDRAM": 1000, "SRAM": 100}
    m["exc"] = {}
    chips = par.live_chips(m)
    dead_links = {tuple(l) for l in m["dead_links"]}
    if cls != "easy" and rng.random() < .4:
        for _ in range(rng.randint(1, 3)):
            xy = rng.choice(chips)
            m["exc"][xy] = {"Cores": rng.randint(1, 18),
                            "SDRAM": rng.choice([0, 50, 1000]), "SRAM": 100}
    busy = {}
    if cls in ("constrained", "devices") or rng.random() < .3:
        for xy in rng.sample(chips, min(len(chips), rng.randint(0, 4))):
            nc = m["exc"].get(xy, m["res"])["Cores"]
            busy[xy] = sorted(rng.sample(range(nc), min(nc, rng.randint(1,
                                                                        3))))
    nv = rng.randint(1, 24) if cls != "tiny" else rng.randint(1, 6)
    if cls == "faulty_fanout":
        nv = rng.randint(20, 60)
    vertices, cons = [], []
    for i in range(nv):
        if cls == "easy":
            r = {"Cores": 1}
        else:
            r = {"Cores": rng.choice([0, 1, 1, 1, 2, 3])}
            if rng.random() < .5:
                r["SDRAM"] = rng.choice([0, 1, 7, 10])
            if rng.random() < .05:
                r = {}
        vertices.append((i, r))
    if cls in ("devices", "constrained") or rng.random() < .15:
        for _ in range(rng.randint(1, 2)):
            v = "dev%d" % len(vertices)
            xy = rng.choice(chips)
            l = rng.randrange(6)
            vertices.append((v, rng.choice([{}, {}, {"Cores": 0},
                                            {"Cores": 1}])))
            cons.append(("loc", v, xy))
            cons.append(("endpoint", v, l))
            dead_links.add((xy[0], xy[1], l))
    m["dead_links"] = sorted(dead_links)
    names = [v for v, _ in vertices]

    if cls in ("constrained",) or rng.random() < .2:
        located = {c[1]: c[2] for c in cons if c[0] == "loc"}
        for v in rng.sample(names, min(len(names), rng.randint(0, 3))):
            if v not in located:
                located[v] = rng.choice(chips)
                cons.append(("loc", v, located[v]))
        free = [v for v in names if v not in located]
        for _ in range(rng.randint(0, 2)):
            if len(free) >= 2:
                g = rng.sample(free, rng.randint(2, min(3, len(free))))
                cons.append(("same", g))
                free = [v for v in free if v not in g]
        if rng.random() < .5:
            cons.append(("align", "SDRAM", 4))
    devs = [c[1] for c in cons if c[0] == "endpoint"]
    if devs and rng.random() < .4:
        # a device tied to its driver: the endpoint vertex is also member of
        # a same-chip group (with a vertex nothing else pins down)
        pinned = {c[1] for c in cons if c[0] == "loc"} | {
            v for c in cons if c[0] == "same" for v in c[1]}
        free_ = [v for v, r_ in vertices if v not in devs and
                 v not in pinned and r_.get("Cores", 0) <= 2]
        if free_:
            cons.append(("same", [rng.choice(devs), rng.choice(free_)]))
    nets = []
    for _ in range(rng.randint(1, 10)):
        fan = rng.choice([1, 1, 2, 3, 5, rng.randint(1, 25)])
        if cls == "faulty_fanout":
            fan = rng.randint(8, 40)
        sinks = [rng.choice(names) for _ in range(fan)]
        src = rng.choice([v for v in names])
        if rng.random() < .15:
            sinks.append(src)
        if rng.random() < .15:
            sinks.append(sinks[0])
        nets.append((src, sinks, rng.choice([1, 1.0, 0, 2.5])))
    if rng.random() < .12:
        # two streams between the same vertices: nets equal in every value
        # (source, sinks, weight), told apart only by their keys
        j = rng.randrange(len(nets))
        nets.append((nets[j][0], list(nets[j][1]), nets[j][2]))
    kmode = "bitfield" if cls == "keys" and rng.random() < .5 else \
        rng.choice(["distinct", "prefix", "distinct"])
    keys = []
    base = rng.getrandbits(20) << 12
    xbits = rng.choice([2, 4])
    for i in range(len(nets)):
        if kmode == "distinct":
            keys.append(((base + i * 0x11) & 0xffffffff, 0xffffffff))
        elif kmode == "prefix":
            keys.append(((base + (i << xbits)) & 0xffffffff,
                         (0xffffffff << xbits) & 0xffffffff))
        else:
            keys.append(None)       # allocated with a BitField at run time
    cfg = idx
    path = PATHS[cfg % 4]
    if cls == "probed":
        path = "probed"
    if cls == "faulty_fanout":
        cfg = 2 * rng.choice([1, 2, 3, 4, 5]) + 4 * rng.randrange(100)
    return dict(machine=m, busy=sorted(busy.items()), vertices=vertices,
                nets=nets, keys=keys, kmode=kmode, constraints=cons,
                path=path, placer=PLACERS[(cfg // 2) % 7],
                radius=RADII[(cfg // 3) % 4],
                minimiser=MINIMISERS[(cfg // 5) % 4],
                target=None if cls == "easy" else
                rng.choice([None, None, None, 1023, 1023, 3, 1, 0, "half",
                            "per-chip"]),
                seed=rng.randrange(1 << 30), easy=cls == "easy",
                rtr_free=1023 if cls == "easy" else
                rng.choice([1023, 1023, 200, 12, 4]))


# ------------------------------------------------------------ fabric model
def simulate(tables, m, src_chip, key, endpoints, ctx, orig_km):
    """Inject `key` locally at src_chip.  -> (Counter of deliveries, problems)
    deliveries are (chip, core) and ("exit", chip, link)."""
    w, h = m["w"], m["h"]
    dead = {tuple(c) for c in m["dead_chips"]}
    dl = {tuple(l) for l in m["dead_links"]}
    got = collections.Counter()
    seen = set()
    frontier = [(src_chip, None)]
    steps = 0
    bound = 6 * w * h + 10
    trace = []
    while frontier:
        chip, arr = frontier.pop()
        steps += 1
        if steps > bound:
            return got, "step-bound", "more than %d hops" % bound, trace
        if (chip, arr) in seen:
            return got, "packet-circulates", \
                "chip %r reached twice on link %r" % (chip, arr), trace
        seen.add((chip, arr))
        entry = None
        for e in tables.get(chip, ()):
            if key & e.mask == e.key:
                entry = e
                break
        if entry is None:
            if arr is None:
                return got, "packet-dropped-at-source", \
                    "no entry matches at the source chip %r" % (chip,), trace
            outs = [(arr + 3) % 6]
            ctx.hit("default_routed_hop")
            trace.append((chip, arr, "default", outs))
        else:
            outs = sorted(int(r) for r in entry.route)
            if (entry.key, entry.mask) not in orig_km:
                ctx.hit("minimised_entry_hit")
            trace.append((chip, arr, "%#x/%#x" % (entry.key, entry.mask),
                          outs))
            # an entry without route absorbs the packet: legitimate only for
            # branches that end at sinks owning no core (judged below as
            # missing deliveries otherwise)
        for r in outs:
            if r >= 6:
                got[(chip, r - 6)] += 1
                continue
            if (chip, r) in endpoints:
                got[("exit", chip, r)] += 1
                continue
            if (chip[0], chip[1], r) in dl:
                return got, "hop-over-dead-link", \
                    "link %d of chip %r" % (r, chip), trace
            nxt = par.neighbour(w, h, chip[0], chip[1], r)
            if nxt in dead:
                return got, "hop-into-dead-chip", repr(nxt), trace
            frontier.append((nxt, (r + 3) % 6))
    return got, None, None, trace


# --------------------------------------------------------------------- run
def system_info_for(case, mcm, Links):
    m = case["machine"]
    busy = {tuple(xy): cs for xy, cs in case["busy"]}
    dl = {tuple(l) for l in m["dead_links"]}
    si = mcm.SystemInfo(m["w"], m["h"])
    consts = importlib.import_module("rig.machine_control.consts")
    for xy in par.live_chips(m):
        r = par.chip_res(m, xy)
        states = [consts.AppState.idle] * r["Cores"]
        for c in busy.get(xy, []):
            states[c] = consts.AppState.run
        si[xy] = mcm.ChipInfo(
            num_cores=r["Cores"], core_states=states,
            working_links={Links(l) for l in range(6)
                           if (xy[0], xy[1], l) not in dl},
            largest_free_sdram_block=r["SDRAM"],
            largest_free_sram_block=r["SRAM"],
            largest_free_rtr_mc_block=case["rtr_free"])
    return si


def probed_machine(case):
    """the case's machine as a simulated SpiNNaker machine behind a real
    MachineController"""
    from ..sim import machine as M
    m = case["machine"]
    busy = {tuple(xy): cs for xy, cs in case["busy"]}
    dl = {tuple(l) for l in m["dead_links"]}
    sim = M.Machine(m["w"], m["h"], dead=[tuple(c) for c in m["dead_chips"]],
                    root=par.live_chips(m)[0])
    for xy, chip in sim.chips.items():
        r = par.chip_res(m, xy)
        chip.ncores = r["Cores"]
        chip.core_state = [M.RUN] + [M.IDLE] * (r["Cores"] - 1)
        chip.core_app = [0] * r["Cores"]
        chip.core_image = [None] * r["Cores"]
        for c in busy.get(xy, []):
            chip.core_state[c] = M.RUN
            chip.core_app[c] = 17
        chip.links = {l for l in range(6) if (xy[0], xy[1], l) not in dl}
        chip.sdram_free, chip.sram_free = r["SDRAM"], r["SRAM"]
        for i in range(1, 1024 - case["rtr_free"]):
            chip.router[i] = (0, 0xffffffff, 0xffffffff, 9, 0)
    sim.finalise()
    return M.Rig(sim)


def run(case, ctx):
    imp = importlib.import_module
    rp = imp("rig.place_and_route")
    exc = imp("rig.place_and_route.exceptions")
    rt = imp("rig.routing_table")
    wr = imp("rig.place_and_route.wrapper")
    mcm = imp("rig.machine_control.machine_controller")
    from rig.links import Links
    from rig.bitfield import BitField
    m = case["machine"]
    busy = {tuple(xy): cs for xy, cs in case["busy"]}
    vr = par.build_vertices(case["vertices"])
    nets = par.build_nets(case["nets"])
    cons_desc = list(case["constraints"])
    # keys
    if case["kmode"] == "bitfield":
        bf = BitField(32)
        bf.add_field("kind", length=2, start_at=30)
        bf.add_field("net")
        ks = [bf(kind=1, net=i) for i in range(len(nets))]
        bf.assign_fields()
        key_list = [(k.get_value(), k.get_mask()) for k in ks]
    else:
        key_list = [tuple(k) for k in case["keys"]]
    net_keys = dict(zip(nets, key_list))
    check(len(net_keys) == len(nets), "nets-collapse-as-dictionary-keys",
          "%d distinct Net objects make %d keys of the {net: key} dictionary "
          "the mapping functions take" % (len(nets), len(net_keys)))
    rng = _random.Random(case["seed"])
    placer = case["placer"]
    if placer.startswith("sa-"):
        kname = "python_kernel" if placer == "sa-py" else "c_kernel"
        kcls = "PythonKernel" if placer == "sa-py" else "CKernel"
        kernel = getattr(imp("rig.place_and_route.place.sa." + kname), kcls)
        place_fn = imp("rig.place_and_route.place.sa").place
        pkw = dict(effort=0.03 if placer == "sa-py" else 0.5, random=rng,
                   kernel=kernel)
    elif placer == "rand":
        place_fn = imp("rig.place_and_route.place.rand").place
        pkw = dict(random=rng)
    else:
        place_fn = imp("rig.place_and_route.place." + placer).place
        pkw = {}
    methods = {"none": (), "rde": (wr.remove_default_entries,),
               "oc": (wr.ordered_covering,),
               "chain": (wr.remove_default_entries, wr.ordered_covering)}[
                   case["minimiser"]]
    _random.seed(case["seed"])
    what = "%s path, %s, radius %d, minimiser %s, target %r" % (
        case["path"], placer, case["radius"], case["minimiser"],
        case["target"])
    reject = (exc.InsufficientResourceError, exc.InvalidConstraintError,
              exc.MachineHasDisconnectedSubregion,
              rt.MinimisationFailedError)
    live = par.live_chips(m)
    easy_ok = (case["easy"] and par.strongly_connected(m) and
               len(case["vertices"]) <= sum(
                   par.chip_res(m, xy)["Cores"] - 1 - len(busy.get(xy, []))
                   for xy in live) and case["target"] in (None, 1023) and
               case["rtr_free"] == 1023 and
               not any(c[0] in ("loc", "same") for c in cons_desc))
    rig_sim = None
    try:
        if case["path"] in ("wrapper", "probed"):
            if case["path"] == "probed":
                rig_sim = probed_machine(case)
                si = rig_sim.mc.get_system_info()
                ctx.hit("probed_machine")
            else:
                si = system_info_for(case, mcm, Links)
            constraints = par.build_constraints(cons_desc)
            placements, allocations, app_map, tables = \
                wr.place_and_route_wrapper(
                    vr, {v: "app" for v in vr}, nets, net_keys, si,
                    constraints, place=place_fn, place_kwargs=pkw,
                    route_kwargs=dict(radius=case["radius"]),
                    minimise_tables_methods=methods or
                    (wr.remove_default_entries, wr.ordered_covering))
            unminimised = None
        else:
            cd = cons_desc + [("reserve", "Cores", 0, 1, None)]
            for xy, cs in busy.items():
                for c in cs:
                    if c != 0:
                        cd.append(("reserve", "Cores", c, c + 1, xy))
            constraints = par.build_constraints(cd)
            machine = par.build_machine(m)
            if case["path"] == "deprecated":
                import warnings
                own_mon = case["radius"] % 2 == 1
                cd_w = cd if own_mon else [
                    c for c in cd if c[:4] != ("reserve", "Cores", 0, 1)]
                if case["seed"] % 3 == 0:
                    # alignment asked for another resource as well: the
                    # wrapper still aligns SDRAM to words by default
                    cd_w = cd_w + [("align", "SRAM", 8)]
                w_cons = par.build_constraints(cd_w)
                w_vr, w_machine, names_ = vr, machine, {}
                if case["seed"] % 4 == 1:
                    # the caller's own names for cores and SDRAM
                    ctx.hit("wrapper_own_resource_names")
                    names_ = {rp.Cores: "processors", rp.SDRAM: ("mem", "sd")}
                    ren = lambda d: {names_.get(k, k): v for k, v in d.items()}
                    w_vr = collections.OrderedDict(
                        (v, ren(r)) for v, r in vr.items())
                    w_machine = machine.copy()
                    w_machine.chip_resources = ren(machine.chip_resources)
                    w_machine.chip_resource_exceptions = {
                        xy: ren(r) for xy, r in
                        machine.chip_resource_exceptions.items()}
                    for c_ in w_cons:
                        if getattr(c_, "resource", None) in names_:
                            c_.resource = names_[c_.resource]
                wkw = dict(place=place_fn, place_kwargs=pkw,
                           route_kwargs=dict(radius=case["radius"]))
                if names_:
                    wkw.update(core_resource=names_[rp.Cores],
                               sdram_resource=names_[rp.SDRAM])
                align_sdram = True
                with warnings.catch_warnings():
                    warnings.simplefilter("ignore")
                    if own_mon:
                        # the monitor reservation made by the caller
                        # instead of the wrapper
                        ctx.hit("wrapper_without_monitor_reservation")
                        align_sdram = rng.random() < .5
                        placements, allocations, app_map, tables = wr.wrapper(
                            w_vr, {v: "app" for v in vr}, nets, net_keys,
                            w_machine, w_cons, False, align_sdram, **wkw)
                    else:
                        placements, allocations, app_map, tables = wr.wrapper(
                            w_vr, {v: "app" for v in vr}, nets, net_keys,
                            w_machine, w_cons, **wkw)
                if names_:
                    back = {v: k for k, v in names_.items()}
                    allocations = {v: {back.get(k, k): sl
                                       for k, sl in a.items()}
                                   for v, a in allocations.items()}
                if align_sdram:
                    ctx.hit("wrapper_sdram_alignment")
                    for v, a in allocations.items():
                        sl = a.get(rp.SDRAM)
                        check(sl is None or sl.stop <= sl.start or
                              sl.start % 4 == 0,
                              "wrapper-sdram-not-word-aligned",
                              "%s: vertex %r got SDRAM %r (align_sdram left "
                              "at its default)" % (what, v, sl))
                unminimised = None
            else:
                placements = place_fn(vr, nets, machine, constraints, **pkw)
                allocations = rp.allocate(vr, nets, machine, constraints,
                                          placements)
                routes = rp.route(vr, nets, machine, constraints, placements,
                                  allocations, radius=case["radius"])
                unminimised = rt.routing_tree_to_tables(routes, net_keys)
                tables = dict(unminimised)
                if methods:
                    t = case["target"]
                    if t == "half":
                        t = max(1, max([len(v) for v in tables.values()] +
                                       [1]) // 2)
                    elif t == "per-chip":
                        t = {xy: rng.choice([None, 1023, len(tb), 2,
                                             max(1, len(tb) - 1),
                                             (len(tb) + 1) // 2,
                                             max(1, len(tb) - 2)])
                             for xy, tb in tables.items()}
                    tables = rt.minimise_tables(tables, t, methods)
    except reject as e:
        check(not easy_ok, "easy-problem-not-mapped",
              "%s raised %s: %s" % (what, type(e).__name__, e))
        raise Rejected(type(e).__name__)
    except Violation:
        raise
    except Exception as e:
        raise Violation("unexpected-exception", "%s: %s: %s" %
                        (what, type(e).__name__, e))
    if rig_sim is not None:
        # install the tables through the real controller and simulate on what
        # the routers of the machine model actually hold
        mc = rig_sim.mc
        try:
            mc.load_routing_tables(tables, app_id=66)
        except Exception as e:
            raise Violation("tables-not-installable", "%s: %s: %s" %
                            (what, type(e).__name__, e))
        check(not rig_sim.machine.protocol_errors, "malformed-command",
              "; ".join(rig_sim.machine.protocol_errors[:3]))
        Installed = collections.namedtuple("Installed", "route key mask")
        installed = {}
        for xy, chip in rig_sim.machine.chips.items():
            ents = [Installed({b for b in range(24) if e[0] >> b & 1}, e[1],
                              e[2]) for e in chip.router if e is not None]
            if ents:
                installed[xy] = ents
        for xy, tb in tables.items():
            mine = [e for e in rig_sim.machine.chips[tuple(xy)].router
                    if e is not None and e[3] == 66]
            check(len(mine) == len(tb), "installed-table-length",
                  "chip %r: %d entries installed for a %d-entry table" %
                  (xy, len(mine), len(tb)))
        tables = installed
    if easy_ok:
        ctx.hit("easy_must_map")
    ctx.hit("mapping_simulated")
    if case["path"] in ("wrapper", "probed"):
        # nothing may be placed on a dead chip, the monitor or a busy core
        for v in vr:
            xy = tuple(placements[v])
            check(xy in set(live), "placed-on-dead-chip", "%r on %r" % (v, xy))
            sl = allocations[v].get(rp.Cores, slice(0, 0))
            used = set(range(sl.start, sl.stop))
            clash = used & (set(busy.get(xy, [])) | ({0} if
                            case["path"] == "probed" else set()))
            check(not clash and sl.stop <= par.chip_res(m, xy)["Cores"],
                  "allocated-busy-core",
                  "%s: vertex %r given cores %r of chip %r; busy cores %r" %
                  (what, v, sorted(used), xy, busy.get(xy, [])))
    if case["path"] != "chain":
        want_map = collections.defaultdict(set)
        for v in vr:
            sl = allocations[v].get(rp.Cores, slice(0, 0))
            want_map[tuple(placements[v])].update(range(sl.start, sl.stop))
        got_map = {tuple(xy): set(cs) for xy, cs in app_map["app"].items()} \
            if vr else {}
        check({k: v for k, v in got_map.items() if v} ==
              {k: v for k, v in want_map.items() if v}, "application-map",
              "%s: application map %r, allocated cores %r" %
              (what, sorted(got_map.items())[:4],
               sorted(want_map.items())[:4]))
    # ---- expected deliveries and simulation
    ep = {c[1]: c[2] for c in cons_desc if c[0] == "endpoint"}
    endpoints = {(tuple(placements[v]), l) for v, l in ep.items()}
    orig_km = {(k, mk) for k, mk in net_keys.values()}
    shortened = unminimised is not None and any(
        len(tables.get(xy, ())) < len(tb) for xy, tb in unminimised.items())
    multi_chip = False
    for net, (key, mask) in zip(nets, key_list):
        want = collections.Counter()
        for s in set(net.sinks):
            chip = tuple(placements[s])
            if s in ep:
                want[("exit", chip, ep[s])] = 1
                continue
            sl = allocations.get(s, {}).get(rp.Cores)
            if sl is not None:
                for c in range(sl.start, sl.stop):
                    want[(chip, c)] = 1
        xs = [b for b in range(32) if not mask >> b & 1]
        inject = [key | sum(((v >> i) & 1) << b for i, b in enumerate(xs))
                  for v in range(1 << len(xs))] if len(xs) <= 4 else \
            [key, key | (~mask & 0xffffffff)]
        src = tuple(placements[net.source])
        for k in inject:
            ctx.hit("packet_injected")
            got, kind, msg, trace = simulate(tables, m, src, k, endpoints,
                                             ctx, orig_km)
            where = dict(config=what, net=(net.source, net.sinks[:8]),
                         key="%#010x/%#010x" % (k, mask), source_chip=src,
                         trace=trace[:12])
            check(kind is None, kind or "", msg or "", **where)
            ctx.hit("delivery_checked", max(1, len(want)))
            if got != want:
                missing = sorted((want - got).keys(), key=repr)
                extra = sorted((got - want).keys(), key=repr)
                dup = sorted((k_ for k_, n in got.items() if n > 1), key=repr)
                check(not missing, "delivery-missing",
                      "%d expected deliveries never happened, e.g. %r" %
                      (len(missing), missing[:4]), **where)
                check(not dup, "delivered-twice", repr(dup[:4]), **where)
                check(not extra, "delivered-to-wrong-core",
                      "%d unexpected deliveries, e.g. %r" %
                      (len(extra), extra[:4]), **where)
            if len({t[0] for t in trace}) >= 2:
                multi_chip = True
    if multi_chip and (shortened or case["path"] != "chain"):
        ctx.mark_nontrivial()
    ctx.seen("configurations", "%s|%s|%d|%s" % (case["path"], placer,
                                                case["radius"],
                                                case["minimiser"]))
    ctx.note(dict(config=what, nets=len(nets), vertices=len(vr),
                  chips_with_tables=len(tables),
                  entries=sum(len(t) for t in tables.values())))
    return "ok"
