"""C20 - boot sends the complete image carrying this call's options only.

The real boot() (and MachineController.boot) run with socket/time bound to the
virtual network; every boot datagram is recorded and decoded by an independent
decoder; the 128-byte configuration area is compared with an independent
packing of the sark.struct defaults (own parser) with this call's options."""
import warnings
import importlib
import os
import shutil
import struct
import tempfile

from ..core import check, Violation
from ..sim import machine as M
from ..sim import net as simnet

ID = "C20"
IMPORTS = ["rig.machine_control.boot", "rig.machine_control.machine_controller"]
LEVEL = "exploration"
TECHNIQUE = ("wire-level monitor of the boot datagram sequence with an "
             "independent decoder and an independent packer of the "
             "configuration area; history-independence by construction of the "
             "oracle (each boot judged from its own options only)")
LEVEL_TEXT = ("Sequences of 1-6 boots (board presets, arbitrary overrides of "
              "any system variable given as keywords or as a dictionary, "
              "none) with generated images of 512 bytes to the size limit are "
              "performed by the real code in one process; every datagram "
              "sequence is decoded and compared byte for byte with the image "
              "and with an independently packed configuration area, and the "
              "returned struct definitions are compared with the same "
              "values. Randomised exploration over option sets, image sizes "
              "and boot histories.")
LEVEL_NOTE = ("Trusted: the harness's sark.struct parser/packer and boot "
              "datagram decoder (protocol version, command, three arguments, "
              "big-endian words).")
RULE = ("one case = a sequence of boots from one process; non-trivial = the "
        "sequence contains a boot with options followed by a boot without "
        "them (or with different ones) and an image of more than one block; "
        "distinct by case")
ASSUMPTIONS = [
    "images are at least 384 bytes (the configuration area starts inside "
    "the file; a shorter file is extended so that the whole area is sent) "
    "and a whole number of words, below the 32 KiB limit",
    "a system variable whose name is also a formal parameter of boot() "
    "(boot_delay) can only be set through sv_overrides",
    "array-valued system variables are not overridden",
    "unix_time / boot_sig are the virtual clock's second at the time of the "
    "call",
]
FLOORS = {"image_file_rewritten_between_boots": 200, "boot_arguments_by_position": 200, "boot_script": 40, "boot_checked": 500, "config_area_compared": 500,
          "after_options_boot": 150, "multi_block_image": 300, "image_with_repeated_blocks": 150,
          "returned_structs_checked": 500, "controller_boot": 40}
SHARDS = {"quick": 16, "thorough": 64}
CLASSES = ["presets", "overrides", "sizes", "history", "controller"]
PRESET_VALUES = dict(
    spin1_boot_options=dict(hw_ver=1, led0=0x00076104),
    spin2_boot_options=dict(hw_ver=2, led0=0x00006103),
    spin3_boot_options=dict(hw_ver=3, led0=0x00000502),
    spin4_boot_options=dict(hw_ver=4, led0=0x00000001),
    spin5_boot_options=dict(hw_ver=5, led0=0x00000001))
PRESETS = ["spin1_boot_options", "spin2_boot_options", "spin3_boot_options",
           "spin4_boot_options", "spin5_boot_options"]


def plan(tier):
    n = 1000 if tier == "quick" else 60000
    return [(c, n) for c in CLASSES]


def scalar_fields():
    out = []
    for name, (ch, off, default, count) in \
            M.structs()["sv"]["fields"].items():
        if count == 1 and not ch.endswith("s"):      # padding words too
            out.append((name, ch, off))
    return out


def gen(cls, idx, rng, tier):
    fields = [f for f in scalar_fields()
              if f[0] not in ("unix_time", "boot_sig", "root_chip")]
    boots = []
    n = 1 if cls in ("sizes",) else rng.randint(2, 6) if cls == "history" \
        else rng.randint(1, 3)
    for b in range(n):
        kind = rng.choice(["none", "preset", "kw", "dict", "both"])
        if cls == "presets":
            kind = rng.choice(["preset", "preset", "none"])
        if cls == "history" and b % 2 == 1:
            kind = "none"
        kw, dct, preset = {}, None, None
        if kind == "preset":
            preset = rng.choice(PRESETS)
        if kind in ("kw", "both"):
            for name, ch, off in rng.sample(fields, rng.randint(1, 4)):
                if name != "boot_delay":
                    kw[name] = rng.getrandbits(
                        8 * struct.calcsize("<" + ch))
        if kind in ("dict", "both"):
            dct = {}
            for name, ch, off in rng.sample(fields, rng.randint(1, 4)):
                if name not in kw:
                    dct[name] = rng.getrandbits(
                        8 * struct.calcsize("<" + ch))
        size = rng.choice([384, 388, 448, 508,
                           512, 516, 1020, 1024, 1028, 2048, 4 * rng.randint(
            128, 8190), 32764, 32760])
        if cls != "sizes" and rng.random() < .7:
            size = 4 * rng.randint(128, 1200)
        boots.append(dict(kw=kw, dct=dct, preset=preset, size=size,
                          name_form=rng.choice(["str", "str", "str", "path"]),
                          state=rng.choice(["down"] * 5 + ["up", "bmp", "dead",
                                                           "down-unchecked"])
                          if cls == "controller" else "down",
                          seed=rng.randrange(1 << 30),
                          delay=rng.choice([0.05, 0.0, 0.01])))
    return dict(kind="controller" if cls == "controller" else "plain",
                boots=boots)


def expected_area(options, clock_s):
    """independent packing of the sv defaults with `options` applied"""
    buf = bytearray(256)
    vals = {}
    for name, (ch, off, default, count) in \
            M.structs()["sv"]["fields"].items():
        v = options.get(name, default)
        if name in ("unix_time", "boot_sig"):
            v = clock_s
        if name == "root_chip":
            v = 1
        vals[name] = v
        if ch.endswith("s"):
            continue
        n = struct.calcsize("<" + ch)
        buf[off:off + n] = struct.pack("<" + ch, v)
    return bytes(buf[:128]), vals


def decode(dg):
    ver, cmd, a1, a2, a3 = struct.unpack_from("!H4I", dg)
    body = dg[18:]
    words = struct.unpack("!%dI" % (len(body) // 4), body[:len(body) // 4 * 4])
    return ver, cmd, (a1, a2, a3), struct.pack("<%dI" % len(words), *words), \
        len(body)


def judge_boot(ctx, dgs, image, options, vals_time, structs, where):
    ctx.hit("boot_checked")
    check(len(dgs) >= 3, "too-few-datagrams", str(len(dgs)), **where)
    dec = [decode(d) for d in dgs]
    check(all(d[0] == 1 for d in dec), "protocol-version",
          repr({d[0] for d in dec}), **where)
    n_blocks = len(dec) - 2
    ver, cmd, args, body, blen = dec[0]
    check(cmd == 1 and not blen and tuple(args) == (0, 0, n_blocks - 1),
          "start-datagram", "command %d args %r for %d blocks" %
          (cmd, args, n_blocks), **where)
    ver, cmd, args, body, blen = dec[-1]
    check(cmd == 5 and tuple(args) == (1, 0, 0) and not blen, "end-datagram",
          "command %d args %r" % (cmd, args), **where)
    data = b""
    for i, (ver, cmd, args, body, blen) in enumerate(dec[1:-1]):
        check(cmd == 3, "block-command", "datagram %d has command %d" %
              (i + 1, cmd), **where)
        check(args[0] & 0xff == i, "block-number",
              "block %d is numbered %d" % (i, args[0] & 0xff), **where)
        check(0 < blen <= 1024 and blen % 4 == 0, "block-size",
              "block %d carries %d bytes" % (i, blen), **where)
        check((args[0] >> 8) & 0xff >= blen // 4 - 1, "block-word-count",
              "block %d announces %d words, carries %d" %
              (i, ((args[0] >> 8) & 0xff) + 1, blen // 4), **where)
        check(args[0] >> 16 == 0 and args[1] == 0 and args[2] == 0,
              "block-argument-stray-bits",
              "block %d: arguments %r (the first holds word count - 1 in "
              "bits 8-15 and the block number in bits 0-7, the others are "
              "zero)" % (i, [hex(a) for a in args]), **where)
        data += body
    if n_blocks > 1:
        ctx.hit("multi_block_image")
    check(len(data) == max(len(image), 512), "image-length",
          "%d bytes sent, image has %d (the configuration area ends at 512)"
          % (len(data), len(image)), **where)
    if len(image) < 512:
        ctx.hit("image_ends_inside_configuration_area")
    bad = [i for i in range(len(image)) if not 384 <= i < 512 and
           data[i] != image[i]]
    check(not bad, "image-bytes", "byte %d of the image arrives as %#04x, "
          "file has %#04x (%d bytes differ)" %
          (bad[0] if bad else 0, data[bad[0]] if bad else 0,
           image[bad[0]] if bad else 0, len(bad)), **where)
    ctx.hit("config_area_compared")
    area = data[384:512]
    ok = False
    for t in vals_time:
        want, vals = expected_area(options, t)
        if area == want:
            ok = True
            break
    if not ok:
        want, vals = expected_area(options, vals_time[0])
        diff = [i for i in range(128) if area[i] != want[i]]
        names = sorted({n for n, (ch, off, d, c) in
                        M.structs()["sv"]["fields"].items()
                        if any(off <= i < off + max(1, struct.calcsize(
                            "<" + ch) if not ch.endswith("s") else 1)
                            for i in diff)})
        check(False, "configuration-area",
              "bytes %r of the configuration area differ (fields %r): sent "
              "%s, expected %s" % (diff[:8], names[:6],
                                   area[diff[0]:diff[0] + 4].hex(),
                                   want[diff[0]:diff[0] + 4].hex()), **where)
    # returned struct definitions describe the same values
    if structs is None:         # (the command-line front end returns none)
        return
    ctx.hit("returned_structs_checked")
    sv = structs[b"sv"]
    for name, v in vals.items():
        if name.startswith("__") or name.encode() not in sv:
            continue
        got = sv[name.encode()].default
        if name in ("unix_time", "boot_sig"):
            check(got in vals_time, "returned-struct-time",
                  "%s = %r" % (name, got), **where)
        else:
            check(got == v, "returned-struct-value",
                  "returned sv.%s default is %r, this boot used %r" %
                  (name, got, v), **where)


def run(case, ctx):
    import random
    bootm = importlib.import_module("rig.machine_control.boot")
    mcm = importlib.import_module("rig.machine_control.machine_controller")
    sc = importlib.import_module("rig.machine_control.scp_connection")
    consts = importlib.import_module("rig.machine_control.consts")
    tmp = tempfile.mkdtemp(prefix="rv-c20-")
    cwd0 = os.getcwd()
    nt = False
    had_options = False
    try:
        for bi, b in enumerate(case["boots"]):
            net = simnet.Net()
            net.bind(bootm, mcm, sc)
            clock = net.clock
            rng = random.Random(b["seed"])
            image = bytes(rng.getrandbits(8) for _ in range(b["size"]))
            shape = b["seed"] % 5
            if shape in (1, 2) and len(image) >= 2048:
                # what real images look like: zero-filled (.bss) stretches,
                # tables stored twice - whole blocks that are byte-identical
                # to other blocks, and runs of equal words inside blocks
                img = bytearray(image)
                nb = len(img) // 1024
                for _ in range(rng.randint(1, 3)):
                    i, j = rng.randrange(nb), rng.randrange(nb)
                    if shape == 1:
                        img[j * 1024:(j + 1) * 1024] = \
                            img[i * 1024:(i + 1) * 1024]
                    else:
                        lo, hi = sorted((i, j))
                        img[lo * 1024:(hi + 1) * 1024] = \
                            bytes((hi + 1 - lo) * 1024)
                image = bytes(img)[:len(image)]
                ctx.hit("image_with_repeated_blocks")
            one_name = (len(case["boots"]) + case["boots"][0]["size"]) % 3 == 0
            if one_name and bi:
                # the image is rebuilt under the same file name between boots
                ctx.hit("image_file_rewritten_between_boots")
            path = os.path.join(tmp, "img%d.boot" % (0 if one_name else bi))
            with open(path, "wb") as f:
                f.write(image)
            if b.get("name_form") == "path":
                import pathlib
                path = pathlib.Path(path)       # a file name all the same
                ctx.hit("image_named_by_path_object")
            elif (bi + b["size"]) % 5 == 0:
                # the image named relative to the working directory, under
                # the name its build gives it (which is also the name of the
                # image bundled with the library)
                ctx.hit("image_named_relative_to_cwd")
                sub = os.path.join(tmp, "build%d" % bi)
                os.makedirs(sub, exist_ok=True)
                with open(os.path.join(sub, "scamp.boot"), "wb") as f:
                    f.write(image)
                os.chdir(sub)
                path = "scamp.boot"
            options = {}
            kwargs = dict(b["kw"])
            if b["preset"]:
                preset = getattr(bootm, b["preset"])
                pcopy = dict(preset)
                kwargs.update(preset)
                # what each board type needs, written out here
                check(pcopy == PRESET_VALUES[b["preset"]], "preset-values",
                      "%s is %r" % (b["preset"], pcopy))
                options.update(PRESET_VALUES[b["preset"]])
            dct = None if b["dct"] is None else dict(b["dct"])
            if dct is not None:
                options.update(dct)
            options.update(b["kw"])
            datagrams = []
            mstate = b.get("state", "down")
            state = dict(booted=mstate in ("up", "bmp"))
            m = M.Machine(1, 1)
            if mstate == "bmp":
                m.version_name = b"BC&MP/Spin5-BMP"

            def handler(sock, addr, data, datagrams=datagrams, state=state,
                        m=m):
                if addr[1] == 54321:
                    datagrams.append(bytes(data))
                    if struct.unpack_from("!H4I", data)[1] == 5 and \
                            mstate != "dead":
                        state["booted"] = True
                    return None
                if not state["booted"]:
                    return None
                return m.handle(sock, addr, data)
            net.add_host("board-%d" % bi, handler)
            m.eth_of_host["board-%d" % bi] = (0, 0)
            t0 = int(clock.now)
            where = dict(boot=bi, options=options, size=b["size"],
                         via=case["kind"])
            try:
                script = (case["kind"] == "controller" and dct is None and
                          not b["kw"] and (bi + b["size"]) % 2 == 0)
                if script:
                    # the command-line front end: rig-boot HOST [--spinN]
                    rb = importlib.import_module("rig.scripts.rig_boot")
                    import io
                    import contextlib
                    with open(rb.boot.pkg_resources.resource_filename(
                            "rig", "boot/scamp.boot"), "rb") as f_:
                        image = f_.read()
                    argv = ["board-%d" % bi] + (
                        ["--" + b["preset"][:-len("_boot_options")]]
                        if b["preset"] else [])
                    where["argv"] = argv
                    where["machine"] = mstate
                    err = io.StringIO()
                    with contextlib.redirect_stderr(err):
                        rc = rb.main(argv)
                    ctx.hit("boot_script")
                    want_rc = {"down": 0, "down-unchecked": 0, "up": 1,
                               "bmp": 2, "dead": 2}[mstate]
                    check(rc == want_rc, "script-exit-status",
                          "rig-boot %r returned %r for a machine that is %s" %
                          (argv, rc, mstate), **where)
                    if mstate in ("up", "bmp"):
                        check(not datagrams, "boot-data-to-running-machine",
                              "%d boot datagrams" % len(datagrams), **where)
                        continue
                    structs = None
                elif case["kind"] == "controller":
                    mc = mcm.MachineController("board-%d" % bi, n_tries=2,
                                               timeout=0.05)
                    kw2 = dict(kwargs)
                    if dct is not None:
                        kw2["sv_overrides"] = dct
                    if mstate == "down-unchecked":
                        kw2["only_if_needed"] = False
                    where["machine"] = mstate
                    dep = ()
                    sel = (bi + b["size"] // 4) % 4
                    if sel and not ("width" in kw2 or "height" in kw2):
                        # the deprecated machine dimensions ("now ignored"),
                        # by position, by keyword, or only one of them
                        ctx.hit("deprecated_dimensions_given")
                        wd, hd = 8 * (1 + b["size"] % 3), 8 * (1 + bi % 2)
                        if sel == 1:
                            dep = (wd, hd)
                        elif sel == 2:
                            kw2.update(width=wd, height=hd)
                        else:
                            kw2.update(height=hd)
                        where["deprecated_dimensions"] = (sel, wd, hd)
                    try:
                        with warnings.catch_warnings():
                            warnings.simplefilter("ignore")
                            did = mc.boot(*dep, scamp_binary=path,
                                          boot_delay=b["delay"], **kw2)
                    except mcm.SpiNNakerBootError as e:
                        did = e
                    structs = mc.structs
                    ctx.hit("controller_boot")
                    if mstate in ("up", "bmp"):
                        # nothing may be sent to the boot port of a machine
                        # that answers already (or of a board controller)
                        ctx.hit("boot_not_needed")
                        check(did is False if mstate == "up" else
                              isinstance(did, mcm.SpiNNakerBootError),
                              "controller-boot-result", repr(did), **where)
                        check(not datagrams, "boot-data-to-running-machine",
                              "%d boot datagrams" % len(datagrams), **where)
                        continue
                    if mstate == "dead":
                        ctx.hit("boot_failed_reported")
                        check(isinstance(did, mcm.SpiNNakerBootError),
                              "controller-boot-result", repr(did), **where)
                    else:
                        check(did is True, "controller-boot-result",
                              repr(did), **where)
                else:
                    kw2 = dict(kwargs)
                    if dct is not None:
                        kw2["sv_overrides"] = dct
                    if (bi + len(case["boots"]) + b["size"]) % 3 == 0:
                        # every documented parameter given by position, in
                        # the documented order
                        ctx.hit("boot_arguments_by_position")
                        where["positional"] = True
                        pos = [kw2.pop("boot_port", consts.BOOT_PORT), path,
                               kw2.pop("sark_struct", None), b["delay"],
                               kw2.pop("post_boot_delay", 2.0),
                               kw2.pop("sv_overrides", {})]
                        structs = bootm.boot("board-%d" % bi, *pos, **kw2)
                    else:
                        structs = bootm.boot("board-%d" % bi,
                                             scamp_binary=path,
                                             boot_delay=b["delay"], **kw2)
            except Violation:
                raise
            except Exception as e:
                raise Violation("unexpected-exception", "%s: %s" %
                                (type(e).__name__, e), **where)
            t1 = int(clock.now)
            if b["dct"] is not None:
                check(dct == b["dct"], "caller-dictionary-modified",
                      "sv_overrides passed as %r is now %r" % (b["dct"], dct),
                      **where)
            if b["preset"]:
                check(dict(getattr(bootm, b["preset"])) == pcopy,
                      "preset-modified", b["preset"], **where)
            if had_options and not options:
                ctx.hit("after_options_boot")
            judge_boot(ctx, datagrams, image, options,
                       list(range(t0, t1 + 1)), structs, where)
            if had_options and set(options) != last_opts and b["size"] > 1024:
                nt = True
            if options:
                had_options = True
            last_opts = set(options)
    finally:
        os.chdir(cwd0)
        shutil.rmtree(tmp, ignore_errors=True)
    if nt:
        ctx.mark_nontrivial()
    ctx.note([dict(size=b["size"], options=sorted(b["kw"]) +
                   sorted(b["dct"] or []) + [b["preset"] or ""])
              for b in case["boots"]])
    return "ok"
