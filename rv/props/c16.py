"""C16 - fixed-point conversion saturates, is monotone and inverts exactly.

Oracle: exact rational arithmetic (fractions.Fraction): the fixed-point value
of v is trunc(v * 2**n_frac) clamped to the format's range."""
import math
import warnings
from fractions import Fraction

from ..core import check

ID = "C16"
IMPORTS = ['rig.type_casts']
LEVEL = "exploration"
TECHNIQUE = ("runtime post-condition monitor against an exact rational "
             "reference; cross-implementation agreement (scalar / numpy / "
             "deprecated) on the same inputs")
LEVEL_TEXT = ("For generated formats (signed/unsigned, 8-64 bits, any "
              "fraction) the real converters are run on boundary-focused "
              "value sets (both range ends +-1 ulp and +-1 step, zeros, "
              "subnormals, huge, half steps, random) and every result is "
              "compared with exact rational arithmetic; monotonicity, "
              "in-range, one-step accuracy, exact inversion and agreement of "
              "the array and deprecated variants are asserted on the same "
              "runs.  Randomised exploration with systematic boundary values "
              "is the right level: the failure modes are float rounding at "
              "format boundaries.")
LEVEL_NOTE = ("Trusted: Python's Fraction and math.trunc. Inputs are finite "
              "float64 whose scaled value is finite; inversion is only "
              "required for fixed-point values exactly representable as a "
              "float64.")
RULE = ("one case = one format and a sorted list of 40-70 float values; "
        "non-trivial = the list contains values that saturate at both ends "
        "and values strictly inside the range with a non-zero fraction; "
        "distinct by case")
ASSUMPTIONS = [
    "finite float64 inputs whose scaled value is a finite float64",
    "0 <= n_frac <= n_bits (+4 for the non-deprecated converters); the "
    "deprecated converters additionally need n_frac <= n_bits - sign bit",
    "numpy converters: n_bits in {8,16,32,64}, float64 input arrays",
    "fp->float->fp identity is required only when the fixed-point value "
    "divided by 2**n_frac is exactly representable in float64",
]
FLOORS = {"numpy_invalid_raises": 300, "large_array_layout": 40, "converter_reused": 2000, "same_array_new_contents": 2000, "scalar_exact": 5000, "numpy_vs_scalar": 3000,
          "deprecated_vs_scalar": 3000, "inverse_exact": 500,
          "saturated_high": 200, "saturated_low": 200}
SHARDS = {"quick": 16, "thorough": 64}
CLASSES = ["std", "odd", "wide", "zero_frac", "full_frac", "over_frac"]


def plan(tier):
    n = 2000 if tier == "quick" else 150000
    return [(c, n) for c in CLASSES]


def gen(cls, idx, rng, tier):
    signed = rng.random() < 0.5
    if cls == "std":
        nb = rng.choice([8, 16, 32, 64])
    elif cls == "wide":
        nb = rng.choice([64, 64, 63, 54, 53, 55, 48, 62])
    else:
        nb = rng.choice([8, 16, 32, 64, rng.randint(8, 64)])
    top = nb - (1 if signed else 0)
    nf = rng.randint(0, top)
    if cls == "zero_frac":
        nf = 0
    elif cls == "full_frac":
        nf = top
    elif cls == "over_frac":
        # "any number of fractional bits": a little, and far, more than the
        # format is wide
        nf = nb + rng.choice([rng.randint(0, 4), rng.randint(5, 40),
                              rng.randint(41, 300)])
    lo, hi = ((-(1 << (nb - 1)), (1 << (nb - 1)) - 1) if signed
              else (0, (1 << nb) - 1))
    step = 2.0 ** -nf
    vals = set()
    for e in (lo, hi, lo + 1, hi - 1, 0):
        x = e / 2.0 ** nf
        vals |= {x, math.nextafter(x, math.inf), math.nextafter(x, -math.inf),
                 x + step, x - step, x + step / 2, x - step / 2, 2 * x}
    vals |= {0.0, -0.0, 5e-324, -5e-324, 1e300, -1e300, 0.5, -0.5, 1.0, -1.0,
             2.2250738585072014e-308, -step / 3, step / 3, 1e30, -1e30}
    span = (hi - lo) / 2.0 ** nf
    for _ in range(12):
        vals.add(lo / 2.0 ** nf + rng.random() * span)
        vals.add((rng.randint(lo, hi) + rng.choice([0, .5, .25, .999])) * step)
        vals.add(rng.uniform(-2, 2) * 2.0 ** rng.randint(-70, 70))
    vals = sorted(v for v in vals if math.isfinite(v * 2.0 ** nf))
    fps = sorted({lo, hi, 0, lo + 1, hi - 1} |
                 {rng.randint(lo, hi) for _ in range(6)} |
                 {rng.randint(lo, hi) >> rng.randint(0, nb) for _ in range(6)})
    shape = rng.choice(["flat", "2d", "scalar0d"])
    big = None
    if idx % 20 == 7:
        # arrays as large as real weight matrices (any size threshold inside
        # the converters is crossed), in every memory layout numpy has
        big = dict(n=rng.choice([65535, 65536, 65537, 70001, (1 << 17) + 3,
                                 300 * 301, rng.randint(40000, 200000)]),
                   layout=rng.choice(["c1d", "c2d", "fortran", "transposed",
                                      "axes3", "strided", "reversed",
                                      "broadcast"]),
                   seed=rng.randrange(1 << 30))
    return dict(signed=signed, nb=nb, nf=nf, vals=vals, fps=fps, shape=shape,
                big=big)


def lay_out(np, a, layout):
    """the array `a` (1-D, C order) in the named memory layout; the same call
    on an index array gives the element order of the result"""
    n = len(a)
    rows = next(r for r in (300, 256, 7, 3, 2, 1) if n % r == 0)
    if layout == "c2d":
        return a.reshape(rows, n // rows)
    if layout == "fortran":
        return np.asfortranarray(a.reshape(rows, n // rows))
    if layout == "transposed":
        return a.reshape(rows, n // rows).T
    if layout == "axes3":
        k = next(r for r in (5, 4, 3, 2, 1) if (n // rows) % r == 0)
        return a.reshape(rows, k, n // rows // k).transpose(2, 0, 1)
    if layout == "strided":
        return np.repeat(a, 2)[::2]
    if layout == "reversed":
        return a[::-1]
    if layout == "broadcast":
        return np.broadcast_to(a[:max(1, n // 4)], (4, max(1, n // 4)))
    return a


def run(case, ctx):
    import numpy as np
    from rig import type_casts as T
    signed, nb, nf = case["signed"], case["nb"], case["nf"]
    vals = case["vals"]
    lo, hi = ((-(1 << (nb - 1)), (1 << (nb - 1)) - 1) if signed
              else (0, (1 << nb) - 1))
    fmt = dict(signed=signed, n_bits=nb, n_frac=nf)
    f = T.float_to_fp(signed, nb, nf)
    g = T.fp_to_float(nf)
    exact = []
    prev = None
    sat_lo = sat_hi = inside_frac = 0
    for v in vals:
        scaled = Fraction(v) * 2 ** nf
        t = math.trunc(scaled)
        exp = max(lo, min(hi, t))
        r = f(v)
        if len(exact) % 3 == 0 and isinstance(v, float):
            # a value that comes out of a numpy computation is a float too
            # (numpy.float64 is a subclass of float)
            r64 = f(np.float64(v))
            ctx.hit("scalar_from_numpy_float64")
            check(int(r64) == r, "scalar-value",
                  "float_to_fp(numpy.float64(%r)) = %r, float_to_fp(%r) = %r"
                  % (v, r64, v, r), value=v, **fmt)
        ctx.hit("scalar_exact")
        check(isinstance(r, int) and not isinstance(r, bool) and r == exp,
              "scalar-value", "float_to_fp(%r) = %r, exact %r" % (v, r, exp),
              value=v, **fmt)
        check(lo <= r <= hi, "scalar-out-of-range", repr(r), value=v, **fmt)
        if prev is not None:
            check(r >= prev, "scalar-not-monotone",
                  "f(%r) = %r < %r" % (v, r, prev), **fmt)
        prev = r
        if lo <= t <= hi:
            check(abs(Fraction(r, 2 ** nf) - Fraction(v)) <
                  Fraction(1, 2 ** nf), "scalar-more-than-one-step-off",
                  "f(%r) = %r" % (v, r), **fmt)
            if scaled != t:
                inside_frac += 1
        elif t > hi:
            sat_hi += 1
            ctx.hit("saturated_high")
        else:
            sat_lo += 1
            ctx.hit("saturated_low")
        exact.append(exp)
    # inversion
    for fpv in case["fps"]:
        fl = g(fpv)
        if Fraction(fl) == Fraction(fpv, 2 ** nf):
            ctx.hit("inverse_exact")
            back = f(fl)
            check(back == fpv, "inverse", "fp %r -> %r -> %r" %
                  (fpv, fl, back), **fmt)
    # numpy converters
    if nb in (8, 16, 32, 64):
        c = T.NumpyFloatToFixConverter(signed, nb, nf)
        arr = np.array(vals, dtype=np.float64)
        if case["shape"] == "2d" and len(vals) % 2 == 0:
            arr = arr.reshape(2, len(vals) // 2)
        with warnings.catch_warnings():
            warnings.simplefilter("ignore")
            snapshot = arr.copy()
            if len(vals) % 3 == 0:
                # the caller runs numpy with invalid operations raising (a
                # common debugging setting): saturating is the converter's
                # job, not an invalid operation of the caller's
                ctx.hit("numpy_invalid_raises")
                with np.errstate(invalid="raise"):
                    out = c(arr)
            else:
                out = c(arr)
        check(np.array_equal(arr, snapshot), "numpy-input-mutated", "", **fmt)
        want_dtype = np.dtype("%s%d" % ("int" if signed else "uint", nb))
        check(out.dtype == want_dtype, "numpy-dtype", "%r want %r" %
              (out.dtype, want_dtype), **fmt)
        check(out.shape == arr.shape, "numpy-shape", "%r want %r" %
              (out.shape, arr.shape), **fmt)
        for v, o, e in zip(vals, out.reshape(-1).tolist(), exact):
            ctx.hit("numpy_vs_scalar")
            check(int(o) == e, "numpy-vs-scalar",
                  "array converter gave %r for %r, scalar/exact %r" %
                  (int(o), v, e), value=v, **fmt)
        # the result is the caller's array: what the caller then writes into
        # it touches neither the input nor any later result
        if out.size and out.flags.writeable:
            out[...] = 0x55 if nb > 7 else 1
            ctx.hit("result_array_overwritten")
            check(np.array_equal(arr, snapshot), "numpy-input-mutated",
                  "overwriting the RESULT array changed the input array",
                  **fmt)
        # the same converter object again: other order, strides, element
        # types - nothing may be remembered from the first array
        flat = arr.reshape(-1)
        with warnings.catch_warnings():
            warnings.simplefilter("ignore")
            again = [("reversed view", flat[::-1], exact[::-1]),
                     ("every other element", flat[::2], exact[::2])]
            # single-precision input is scaled in single precision: only
            # values whose scaled value is the same finite number there
            sc32 = np.float32(2.0 ** nf) if nf < 120 else None
            f32 = [(v, e) for v, e in zip(vals, exact)
                   if sc32 is not None and float(np.float32(v)) == v and
                   float(np.float32(v) * sc32) == v * 2.0 ** nf]
            if f32:
                again.append(("float32 array", np.array(
                    [v for v, _ in f32], dtype=np.float32),
                    [e for _, e in f32]))
            whole = [(int(v), e) for v, e in zip(vals, exact)
                     if v == int(v) and abs(v) < 2 ** 52]
            if whole:
                again.append(("int64 array", np.array(
                    [v for v, _ in whole], dtype=np.int64),
                    [e for _, e in whole]))
            for label, a2, want2 in again:
                o2 = c(a2)
                ctx.hit("converter_reused")
                check(o2.dtype == want_dtype and
                      [int(x) for x in o2.reshape(-1).tolist()] == want2,
                      "numpy-converter-reuse",
                      "%s through the same converter object: %r, exact %r" %
                      (label, o2.reshape(-1).tolist()[:6], want2[:6]), **fmt)
        # the same array OBJECT again after its owner changed what it
        # holds - directly, or (for a read-only view handed out by the
        # owner) through the array it is a view of
        if len(vals) >= 2:
            with warnings.catch_warnings():
                warnings.simplefilter("ignore")
                for how in ("writeable", "readonly-view", "flag-toggled"):
                    base = np.array(vals, dtype=np.float64)
                    if how == "readonly-view":
                        a3 = base.view()
                        a3.flags.writeable = False
                    else:
                        a3 = base
                        if how == "flag-toggled":
                            a3.flags.writeable = False
                    first = c(a3)
                    check([int(x) for x in first.tolist()] == exact,
                          "numpy-vs-scalar", "%s array" % how, **fmt)
                    if how == "flag-toggled":
                        a3.flags.writeable = True
                    base[:] = base[::-1].copy()
                    if how == "flag-toggled":
                        a3.flags.writeable = False
                    o3 = c(a3)
                    ctx.hit("same_array_new_contents")
                    check([int(x) for x in o3.tolist()] == exact[::-1],
                          "numpy-converter-reuse",
                          "the same %s array object converted again after "
                          "its contents were changed: %r, exact %r" %
                          (how, o3.tolist()[:6], exact[::-1][:6]), **fmt)
                k3 = T.NumpyFixToFloatConverter(nf)
                ibase = np.array(case["fps"], dtype=want_dtype)
                if ibase.size >= 2:
                    iv = ibase.view()
                    iv.flags.writeable = False
                    k3(iv)
                    ibase[:] = ibase[::-1].copy()
                    f3 = k3(iv)
                    check(f3.tolist() == [g(v) for v in case["fps"]][::-1],
                          "numpy-fix-to-float",
                          "the same read-only view converted again after "
                          "its base was changed: %r" % (f3.tolist()[:6],),
                          **fmt)
        if case.get("big"):
            b = case["big"]
            pick = np.random.RandomState(b["seed"] % (1 << 32)).randint(
                0, len(vals), size=b["n"])
            src = lay_out(np, np.array(vals, dtype=np.float64)[pick],
                          b["layout"])
            want = lay_out(np, np.array(exact, dtype=want_dtype)[pick],
                           b["layout"])
            keep = src.copy()
            with warnings.catch_warnings():
                warnings.simplefilter("ignore")
                got = c(src)
            ctx.hit("large_array_layout")
            check(got.dtype == want_dtype and got.shape == src.shape,
                  "numpy-shape", "large %s array: %r %r" %
                  (b["layout"], got.dtype, got.shape), **fmt)
            bad = np.argwhere(got != want)
            check(len(bad) == 0, "numpy-vs-scalar",
                  "%d of %d elements of a large array (%s layout) differ "
                  "from the scalar converter, first at %r: %r, scalar %r" %
                  (len(bad), src.size, b["layout"],
                   tuple(bad[0]) if len(bad) else None,
                   got[tuple(bad[0])] if len(bad) else None,
                   want[tuple(bad[0])] if len(bad) else None), **fmt)
            check(np.array_equal(src, keep), "numpy-input-mutated",
                  "large array", **fmt)
            kk = T.NumpyFixToFloatConverter(nf)
            back = kk(want)
            wantf = lay_out(np, np.array([g(int(e)) for e in
                                          np.array(exact,
                                                   dtype=want_dtype).tolist()],
                                         dtype=np.float64)[pick], b["layout"])
            check(back.shape == want.shape and np.array_equal(back, wantf),
                  "numpy-fix-to-float", "large %s array differs from the "
                  "scalar converter" % b["layout"], **fmt)
        if case["shape"] == "scalar0d":
            with warnings.catch_warnings():
                warnings.simplefilter("ignore")
                for v, e in list(zip(vals, exact))[::7]:
                    o = c(np.array(v))
                    check(o.shape == () and int(o) == e, "numpy-0d",
                          "0-d input %r gave %r want %r" % (v, o, e), **fmt)
        k = T.NumpyFixToFloatConverter(nf)
        ints = np.array(case["fps"], dtype=want_dtype)
        fl = k(ints)
        for fpv, x in zip(case["fps"], fl.tolist()):
            ctx.hit("numpy_fix_to_float")
            check(x == g(fpv), "numpy-fix-to-float", "%r -> %r, scalar %r" %
                  (fpv, x, g(fpv)), **fmt)
    # deprecated variants (validated parameter range only)
    if nf <= nb - (1 if signed else 0):
        with warnings.catch_warnings():
            warnings.simplefilter("ignore")
            df = T.float_to_fix(signed, nb, nf)
            dg = T.fix_to_float(signed, nb, nf)
            for v, e in zip(vals, exact):
                ctx.hit("deprecated_vs_scalar")
                r = df(v)
                if isinstance(v, float):
                    r64 = df(np.float64(v))
                    check(int(r64) == int(r), "deprecated-float-to-fix",
                          "float_to_fix(numpy.float64(%r)) = %r, "
                          "float_to_fix(%r) = %r" % (v, r64, v, r),
                          value=v, **fmt)
                check(int(r) == e % (1 << nb), "deprecated-float-to-fix",
                      "float_to_fix(%r) = %r want %r (= %r mod 2^%d)" %
                      (v, r, e % (1 << nb), e, nb), value=v, **fmt)
            for fpv in case["fps"]:
                x = dg(fpv % (1 << nb))
                check(x == g(fpv), "deprecated-fix-to-float",
                      "%#x -> %r want %r" % (fpv % (1 << nb), x, g(fpv)),
                      **fmt)
    if sat_lo and sat_hi and inside_frac:
        ctx.mark_nontrivial()
    ctx.note(dict(values=len(vals), saturated_low=sat_lo,
                  saturated_high=sat_hi, inside_with_fraction=inside_frac))
    return "ok"
