"""C17 - library calls neither modify their arguments nor remember earlier
calls.

(a) every argument of every call is deep-snapshotted before and after;
(b) a probe call made after a random history of other calls (and after user
mutation of the objects those calls returned) must give the result it gives
as the very first call in a fresh interpreter image (a child forked from a
zygote that has imported rig but never called into it: rv/fresh.py)."""
import ast
import collections
import importlib
import json
import os
import random as _random
import subprocess
import sys

from ..core import check, Violation, VERIF, REPO
from ..gen import par
from . import c01, c02, c04, c08

ID = "C17"
IMPORTS = ["rig.place_and_route", "rig.routing_table", "rig.bitfield",
           "rig.machine_control", "rig.utils.contexts"]
LEVEL = "exploration"
TECHNIQUE = ("argument-snapshot monitor around every call + differential "
             "oracle against the same probe run first in a fresh interpreter "
             "image (fork from a never-called zygote)")
LEVEL_TEXT = ("Random histories of 3-15 calls (every placer, allocate, route, "
              "table generation, the three minimisers, whole chains, "
              "bit-field programs, creation and use of controller / context "
              "objects), including calls that fail and in-place mutation of "
              "everything earlier calls returned, are followed by a probe "
              "call whose structural result is compared with the same probe "
              "executed as the first call of a fresh interpreter image; deep "
              "snapshots of all arguments are compared around every call."
              ' The same_objects family hands the library ONE container per role, refilled in place between calls.')
LEVEL_NOTE = ("Trusted: the structural snapshot/result encoders. Both sides "
              "run with the same PYTHONHASHSEED (it follows the check's seed), the "
              "same seeded random.Random, the "
              "global random module seeded immediately before the probe, and "
              "int/str vertices created in the same order.")
RULE = ("one case = a history of 3-15 calls followed by a probe; "
        "non-trivial = the history contains at least one call of the probe's "
        "own family with different arguments and at least one mutation of a "
        "returned object, and the probe returned a result (not an error); "
        "distinct by case")
ASSUMPTIONS = [
    "results are compared structurally (placements, slices, tree shape, "
    "table lists, key/mask values, context dictionaries)",
    "a probe that raises must raise the same exception type in the fresh "
    "image",
]
FLOORS = {"same_container_refilled": 300, "argument_snapshot": 3000, "probe_compared": 250,
          "history_call": 1500, "returned_object_mutated": 300}
SHARDS = {"quick": 16, "thorough": 64}
TIMEOUT = {"quick": 900, "thorough": 6 * 3600}
FAMILIES = ["place", "chain", "minimise", "bitfield", "objects", "route",
            "minimise_related", "route_related", "machine_reuse",
            "place_related", "same_objects"]
RELATED = ("minimise_related", "route_related", "machine_reuse",
           "place_related", "same_objects")


def plan(tier):
    n = 320 if tier == "quick" else 25000
    return [(f, n // 8 if f in ("route_related", "machine_reuse",
                                "place_related") else n)
            for f in FAMILIES]


# ------------------------------------------------------------- generators
def gen_call(family, rng, tier):
    if family == "place" and rng.random() < .15:
        # a tight machine and a grid-shaped netlist with fractional weights:
        # the annealer has to swap vertices, and many cost changes cancel
        # exactly - which is where the order of a float sum, or of a set of
        # objects, decides what the seeded generator is asked next
        side = rng.choice([3, 4, 5])
        per = rng.choice([1, 2, 3])
        nv = min(side * side * per, side * side + rng.randint(0, side))
        nets_ = []
        for v in range(nv):
            if (v + 1) % side and v + 1 < nv:
                nets_.append((v, [v + 1], 1.0))
            if v + side < nv:
                nets_.append((v, [v + side], 1.0))
        for _ in range(rng.randint(0, 3)):
            nets_.append((rng.randrange(nv),
                          [rng.randrange(nv) for _ in range(3)],
                          rng.choice([0.5, 2.0, 0.1, 3])))
        return ("place", dict(
            machine=dict(w=side, h=side, res={"Cores": per, "SDRAM": 10},
                         exc={}, dead_chips=[], dead_links=[]),
            vertices=[(v, {"Cores": 1}) for v in range(nv)], nets=nets_,
            constraints=[], placer="sa-py", easy=False,
            kw=dict(effort=rng.choice([0.1, 0.3, 0.5]),
                    seed=rng.randrange(1 << 30), stop_after=None)))
    if family == "place" and rng.random() < .2:
        # bin packing: mixed vertex sizes filling 85-100% of a small
        # machine.  The annealer's random greedy first placement may or may
        # not fit; whether it does, and what comes out, is decided by the
        # caller's seeded generator alone
        w, h = rng.choice([(2, 2), (3, 2), (3, 3), (4, 4), (1, 5)])
        per = rng.randint(8, 17)
        cap = w * h * per
        want = int(cap * rng.uniform(.85, 1.0))
        sizes = []
        while sum(sizes) < want:
            sizes.append(min(rng.choice([1, 2, 3, 3, 4, 4, 5, 6]),
                             want - sum(sizes)))
        nv = len(sizes)
        nets_ = [(rng.randrange(nv), [rng.randrange(nv)
                                      for _ in range(rng.randint(1, 3))], 1.0)
                 for _ in range(rng.randint(1, 6))]
        return ("place", dict(
            machine=dict(w=w, h=h, res={"Cores": per, "SDRAM": 10},
                         exc={}, dead_chips=[], dead_links=[]),
            vertices=[(v, {"Cores": n}) for v, n in enumerate(sizes)],
            nets=nets_, constraints=[],
            placer=rng.choice(["sa-py", "sa-py", "sa-c", "rand"]),
            easy=False,
            kw=dict(effort=rng.choice([0.0, 0.0, 0.05]),
                    seed=rng.randrange(1 << 30), stop_after=None)))
    if family == "place":
        c = c02.gen(rng.choice(["easy", "general", "groups", "tight"]),
                    rng.randrange(1000), rng, "quick")
        if c["placer"] == "sa-py":
            c["kw"]["effort"] = min(c["kw"].get("effort", 0), 0.01)
        return ("place", c)
    if family in ("chain", "route"):
        c = c01.gen(rng.choice(["easy", "faulty", "constrained", "keys"]),
                    rng.randrange(1000), rng, "quick")
        c["path"] = "chain"
        if c["placer"] == "sa-py":
            c["placer"] = "hilbert"
        if family == "chain" and rng.random() < .3:
            # the deprecated all-in-one wrapper with its two switches, with
            # and without a constraint list of the caller's own
            return ("wrapper", c, rng.random() < .5, rng.random() < .5,
                    rng.random() < .6)
        return (family, c)
    if family == "minimise":
        t = c04.gen_table(rng, rng.choice(["orth", "ordered", "tiny"]),
                          "quick")
        n = len(t["entries"])
        return ("minimise", t, rng.choice(["oc", "rde", "mt"]),
                c04.targets(rng, n))
    if family == "bitfield":
        return ("bitfield", c08.gen(rng.choice(["auto", "mixed", "tags",
                                                "reuse", "deep"]),
                                    rng.randrange(1000), rng, "quick"))
    return ("objects", rng.randrange(1 << 30))


def related_tables(rng):
    """(T1, T2): minimising T1 merges two entries into a cube that covers
    more keys than they did; T2 contains that very cube (as a table that was
    minimised earlier and then extended would) next to entries of another
    route whose merge may cover some of the cube's surplus keys.  Any state
    kept between the two calls changes what the second one may merge."""
    k = rng.randint(3, 6)
    pos = sorted(rng.sample(range(32), k))
    full = c04.spread((1 << k) - 1, pos)
    fixed_mask = (rng.getrandbits(32) & ~full) if rng.random() < .5 else 0
    fixed_key = rng.getrandbits(32) & fixed_mask
    a = rng.getrandbits(k)
    b = a
    while bin(a ^ b).count("1") < 2:
        b = rng.getrandbits(k)
    s_route = [rng.randrange(6)]
    n_route = [6 + rng.randrange(18)]
    ka, kb = c04.spread(a, pos) | fixed_key, c04.spread(b, pos) | fixed_key
    m = full | fixed_mask
    t1 = dict(pos=pos, fixed_key=fixed_key, mode="orth",
              entries=[(s_route, ka, m, [None]), (s_route, kb, m, [None])])
    cube_mask = m & ~c04.spread(a ^ b, pos)
    cube_key = ka & cube_mask
    others = [v for v in range(1 << k) if (c04.spread(v, pos) | fixed_key) &
              cube_mask != cube_key]
    # prefer keys next to the cube's surplus keys
    rng.shuffle(others)
    ent = [(s_route, cube_key, cube_mask, [None])]
    for v in others[:rng.randint(2, 5)]:
        ent.append((n_route, c04.spread(v, pos) | fixed_key, m, [None]))
    ent.sort(key=lambda e: bin(~e[1] & ~e[2] & 0xffffffff).count("1"))
    t2 = dict(pos=pos, fixed_key=fixed_key, mode="ordered", entries=ent)
    return t1, t2


def _has_tag(b, tag):
    try:
        b.get_mask(tag=tag)
        return True
    except Exception:
        return False


_KEPT_MACHINES = {}
_KEPT = {}


def keep(flag, role, new, ctx=None):
    """The application's long-lived container for `role` (its one vertex
    dictionary, net list, constraint list, key dictionary, table ...): the
    same OBJECT is handed to the library call after call, emptied and
    refilled in place by its owner in between.  What a call remembers
    about an object it was given must not outlive the owner's edits.  (In
    a fresh interpreter nothing is kept, the new object itself is used.)"""
    if not flag:
        return new
    kept = _KEPT.get(role)
    if kept is None or type(kept) is not type(new):
        _KEPT[role] = new
        return new
    if isinstance(kept, dict):
        kept.clear()
        kept.update(new)
    else:
        kept[:] = new
    if ctx is not None:
        ctx.hit("same_container_refilled")
    return kept
APP_TAG_SETS = [set(t) for t in c08.TAGSETS]


def related_routes(rng):
    """(small, big): a route on a machine of a few chips, then a route with
    the same search radius on a much larger machine whose single net grows a
    tree of hundreds of chips.  Whatever the router remembers from the small
    machine (search spirals, distance tables, per-size scratch state) is
    wrong for the big one."""
    radius = rng.choice([3, 8, 20, 20])
    res = {"Cores": 18, "SDRAM": 1000, "SRAM": 100}

    def problem(w, h, nv, placer, torus):
        dead_links = [] if torus else par.wrap_links(w, h)
        m = dict(w=w, h=h, res=dict(res), exc={}, dead_chips=[],
                 dead_links=sorted(dead_links))
        vertices = [(i, {"Cores": 17}) for i in range(nv)]
        stragglers = rng.sample(range(nv), min(nv, 6))
        nets = [(0, list(range(1, nv)), 1.0),
                (stragglers[0], stragglers[1:] or [0], 1.0)]
        return dict(machine=m, vertices=vertices, nets=nets, constraints=[],
                    seed=rng.randrange(1 << 30), placer=placer,
                    minimiser="none", radius=radius, path="chain")
    sw, sh = rng.choice([(1, 1), (2, 2), (2, 3), (3, 3), (1, 4)])
    small = problem(sw, sh, rng.randint(1, sw * sh), "sequential",
                    rng.random() < .5)
    side = rng.randint(24, 40)
    big = problem(side, side, rng.randint(190, 260),
                  rng.choice(["hilbert", "sequential", "breadth_first"]),
                  rng.random() < .5)
    return small, big


def related_machines(rng):
    """(first, second): the same application routed twice on the SAME
    Machine object, which the application edits in between (Machine is a
    documented plain structure: links die, links are repaired).  Whatever a
    call leaves on the object it was given must not outlive the edit."""
    w = h = rng.randint(5, 9)
    res = {"Cores": 18, "SDRAM": 1000, "SRAM": 100}
    nv = rng.randint(8, 20)
    vertices = [(i, {"Cores": 17}) for i in range(nv)]
    nets = [(rng.randrange(nv), [rng.randrange(nv)
                                 for _ in range(rng.randint(1, 3))], 1.0)
            for _ in range(rng.randint(3, 8))]
    seed = rng.randrange(1 << 30)
    radius = rng.choice([3, 20])
    kinds = rng.sample(["mesh", "torus", "half"], 2)

    def version(kind):
        wl = sorted(par.wrap_links(w, h))
        dead = {"mesh": wl, "torus": [],
                "half": [l for i, l in enumerate(wl) if i % 2]}[kind]
        m = dict(w=w, h=h, res=dict(res), exc={}, dead_chips=[],
                 dead_links=dead)
        return dict(machine=m, vertices=vertices, nets=nets, constraints=[],
                    seed=seed, placer="rand", minimiser="none",
                    radius=radius, path="chain", reuse_machine=True)
    return version(kinds[0]), version(kinds[1])


def related_placements(rng):
    """(earlier, later): two placements by the same placer on machines of
    the same (multi-board) size - 17 to 40 chips across, beyond every
    single-board special case; the earlier one places a few vertices and so
    stops part-way through whatever order the placer walks the chips in, the
    later one reaches further."""
    w = rng.randint(17, 40)
    h = rng.choice([w, w, rng.randint(17, 40), rng.randint(2, 8)])
    per = rng.choice([1, 1, 2])
    placer = rng.choice(["hilbert", "hilbert", "rcm", "breadth_first",
                         "sequential", "rand"])

    def problem(nv):
        nets_ = [(v, [(v + 1) % nv], 1.0) for v in range(0, nv, 3)]
        return dict(
            machine=dict(w=w, h=h, res={"Cores": per, "SDRAM": 10}, exc={},
                         dead_chips=[], dead_links=[]),
            vertices=[(v, {"Cores": 1}) for v in range(nv)], nets=nets_,
            constraints=[], placer=placer, easy=False,
            kw=dict(seed=rng.randrange(1 << 30)) if placer == "rand" else {})
    n1 = rng.randint(3, 60)
    return problem(n1), problem(n1 + rng.randint(1, 200))


def gen(cls, idx, rng, tier):
    history = []
    fams = [f for f in FAMILIES if f not in RELATED]
    for _ in range(rng.randint(3, 15)):
        fam = cls if rng.random() < .4 and cls in fams else rng.choice(fams)
        history.append((gen_call(fam, rng, tier), rng.random() < .6))
    if cls == "minimise_related":
        t1, t2 = related_tables(rng)
        fn = rng.choice(["oc", "mt"])
        history.insert(rng.randrange(len(history) + 1),
                       (("minimise", t1, fn, None), rng.random() < .5))
        probe = ("minimise", t2, rng.choice(["oc", "mt"]), None)
    elif cls == "machine_reuse":
        first, second = related_machines(rng)
        history = history[:3]
        history.insert(rng.randrange(len(history) + 1),
                       (("route", first), False))
        probe = ("route", second)
    elif cls == "place_related":
        first, second = related_placements(rng)
        history = history[:3]
        at = rng.randrange(len(history) + 1)
        history.insert(at, (("place", first), False))
        if rng.random() < .5:
            history.insert(at, (("place", first), False))
        probe = ("place", second)
    elif cls == "same_objects":
        # the application keeps ONE object per role (vertex dictionary, net
        # list, constraint list, key dictionary, placement / allocation /
        # route dictionaries, table) and refills it for every problem
        fam = rng.choice(["place", "chain", "chain", "minimise"])
        history = history[:2]
        for _ in range(rng.randint(1, 3)):
            d = gen_call(fam, rng, tier)
            d[1]["keep"] = True
            history.append((d, False))
        probe = gen_call(fam, rng, tier)
        probe[1]["keep"] = True
        if fam == "minimise" and rng.random() < .6:
            # the same table with a few entries replaced (same length)
            prev = history[-1][0]
            t2 = dict(prev[1])
            ents = list(t2["entries"])
            for _ in range(rng.randint(1, 3)):
                if ents:
                    i = rng.randrange(len(ents))
                    r_, k_, m_, s_ = ents[i]
                    ents[i] = (sorted(set(r_) ^ {rng.randrange(6, 24)}) or
                               [7], k_, m_, s_)
            t2["entries"] = ents
            probe = ("minimise", t2, probe[2], None)
    elif cls == "route_related":
        small, big = related_routes(rng)
        history = history[:4]
        history.insert(rng.randrange(len(history) + 1),
                       (("route", small), False))
        probe = ("route", big)
    else:
        probe = gen_call(cls, rng, tier)
    return dict(history=history, probe=probe, seed=rng.randrange(1 << 30))


# -------------------------------------------------------------- snapshots
def snap(o, depth=0):
    """deep structural snapshot of rig argument / result objects"""
    if depth > 40:
        return "<deep>"
    if o is None or isinstance(o, (bool, int, float, str, bytes)):
        return o
    if isinstance(o, slice):
        return ("slice", o.start, o.stop, o.step)
    if isinstance(o, dict):
        return ("dict", [(snap(k, depth + 1), snap(v, depth + 1))
                         for k, v in o.items()])
    if isinstance(o, (set, frozenset)):
        return ("set", sorted((snap(v, depth + 1) for v in o), key=repr))
    if isinstance(o, (list, tuple, collections.deque)):
        return [snap(v, depth + 1) for v in o]
    name = type(o).__name__
    if name == "RoutingTree":
        return ("tree", tuple(o.chip),
                sorted(((None if r is None else int(r),
                         snap(c, depth + 1)) for r, c in o.children),
                       key=repr))
    if name == "Net":
        return ("net", snap(o.source), snap(o.sinks), o.weight)
    if name == "Machine":
        return ("machine", o.width, o.height, snap(o.chip_resources),
                snap(o.chip_resource_exceptions), snap(o.dead_chips),
                snap(o.dead_links))
    if hasattr(o, "_asdict"):
        return (name, snap(dict(o._asdict()), depth + 1))
    if hasattr(o, "name") and hasattr(o, "value"):
        return (name, int(o.value))
    if hasattr(o, "__dict__"):
        return (name, snap(vars(o), depth + 1))
    return repr(o)


def res_tables(tables):
    return sorted((tuple(xy), [(sorted(int(r) for r in e.route), e.key,
                                e.mask, sorted(repr(s) for s in e.sources))
                               for e in tb]) for xy, tb in tables.items())


class Watch(object):
    """snapshots of the arguments of one call"""

    def __init__(self, ctx, what, **args):
        self.ctx, self.what, self.args = ctx, what, args
        self.before = {k: snap(v) for k, v in args.items()}

    def verify(self):
        for k, v in self.args.items():
            if self.ctx is not None:
                self.ctx.hit("argument_snapshot")
            check(snap(v) == self.before[k], "argument-modified",
                  "%s changed its argument %r" % (self.what, k))
        # an application logs what it passes around: looking at an object
        # (str, repr, hash, ==, iteration) is a library call too
        for k, v in self.args.items():
            show(v)
            check(snap(v) == self.before[k], "argument-modified",
                  "printing / comparing the argument %r of %s changed it" %
                  (k, self.what))


def show(obj, depth=0, budget=None):
    budget = budget if budget is not None else [300]
    if budget[0] <= 0 or depth > 4:
        return
    budget[0] -= 1
    try:
        str(obj)
        repr(obj)
        obj == obj
        hash(obj)
    except TypeError:
        pass                        # unhashable
    if isinstance(obj, dict):
        for k_, v_ in list(obj.items())[:60]:
            show(k_, depth + 1, budget)
            show(v_, depth + 1, budget)
    elif isinstance(obj, (list, tuple, set, frozenset)):
        for v_ in list(obj)[:60]:
            show(v_, depth + 1, budget)


# ---------------------------------------------------------------- executor
def preload():
    for m in IMPORTS + ["rig.place_and_route.place.sa",
                        "rig.place_and_route.place.rand",
                        "rig.place_and_route.place.hilbert",
                        "rig.place_and_route.place.rcm",
                        "rig.place_and_route.place.breadth_first",
                        "rig.place_and_route.place.sequential",
                        "rig.place_and_route.route.ner",
                        "rig.routing_table.minimise",
                        "rig.machine_control.machine_controller",
                        "rig.machine_control.bmp_controller"]:
        importlib.import_module(m)


GLOBAL_RANDOM_FREE = ("place", "minimise", "bitfield")


def execute(desc, ctx=None, mutate=False, seed=0, scramble=False):
    """Run one call descriptor.  -> JSON-able structural result (or
    ("raised", type name)).  Raises Violation when an argument changed."""
    imp = importlib.import_module
    kind = desc[0]
    _random.seed(seed)
    if scramble and kind in GLOBAL_RANDOM_FREE:
        # Only the router's documented tie-breaks draw from the process-wide
        # random module.  A placer is handed its own seeded generator (or
        # uses none), minimisers and bit fields use none: what they return
        # may not depend on the state earlier calls left the process-wide
        # generator in, so for these the two sides start it differently.
        _random.seed(seed * 31 + 17)
        _random.random()
        if ctx is not None:
            ctx.hit("process_wide_random_differs")
    if kind == "place":
        case = desc[1]
        exc = imp("rig.place_and_route.exceptions")
        machine = par.build_machine(case["machine"])
        kp = case.get("keep")
        vr = keep(kp, "vr", par.build_vertices(case["vertices"]), ctx)
        nets = keep(kp, "nets", par.build_nets(case["nets"]), ctx)
        cons = keep(kp, "cons", par.build_constraints(case["constraints"]),
                    ctx)
        placer, kw = case["placer"], dict(case["kw"])
        if placer.startswith("sa-"):
            fn = imp("rig.place_and_route.place.sa").place
            k = imp("rig.place_and_route.place.sa." +
                    ("python_kernel" if placer == "sa-py" else "c_kernel"))
            kw = dict(effort=kw["effort"], random=_random.Random(kw["seed"]),
                      kernel=getattr(k, "PythonKernel" if placer == "sa-py"
                                     else "CKernel"))
        elif placer == "rand":
            fn = imp("rig.place_and_route.place.rand").place
            kw = dict(random=_random.Random(kw["seed"]))
        else:
            fn = imp("rig.place_and_route.place." + placer).place
            kw = {k_: ([tuple(c) for c in v] if k_ == "chip_order" and v
                       else v) for k_, v in kw.items()}
            form = kw.pop("order_form", "list")
            for k_ in ("vertex_order", "chip_order"):
                if kw.get(k_) is not None and form == "tuple":
                    kw[k_] = tuple(kw[k_])
        w = Watch(ctx, "place(%s)" % placer, vertices_resources=vr, nets=nets,
                  machine=machine, constraints=cons,
                  orders=[kw.get("vertex_order"), kw.get("chip_order")])
        try:
            pl = fn(vr, nets, machine, cons, **kw)
        except (exc.InsufficientResourceError,
                exc.InvalidConstraintError) as e:
            w.verify()
            return ["raised", type(e).__name__]
        w.verify()
        out = sorted([repr(v), list(xy)] for v, xy in pl.items())
        if mutate:
            pl.clear()
        return out
    if kind == "wrapper":
        import warnings
        _, case, reserve_monitor, align_sdram, give = desc
        wr = imp("rig.place_and_route.wrapper")
        m = case["machine"]
        machine = par.build_machine(m)
        vr = par.build_vertices(case["vertices"])
        nets = par.build_nets(case["nets"])
        cons = par.build_constraints(list(case["constraints"]))
        net_keys = {n: (0x1000 + 16 * i, 0xfffffff0)
                    for i, n in enumerate(nets)}
        apps = {v: "app" for v in vr}
        args = [vr, apps, nets, net_keys, machine]
        if give:
            args.append(cons)
        try:
            w = Watch(ctx, "wrapper", vr=vr, apps=apps, nets=nets,
                      net_keys=net_keys, machine=machine, cons=cons)
            with warnings.catch_warnings():
                warnings.simplefilter("ignore")
                pl, al, amap, tables = wr.wrapper(
                    *args, reserve_monitor=reserve_monitor,
                    align_sdram=align_sdram,
                    place=imp("rig.place_and_route.place.hilbert").place,
                    route_kwargs=dict(radius=case["radius"]))
            w.verify()
        except Violation:
            raise
        except Exception as e:
            w.verify()
            return ["exception", type(e).__name__]
        out = dict(
            placements=sorted((repr(v), list(xy)) for v, xy in pl.items()),
            allocations=sorted(
                (repr(v), sorted((repr(r), s_.start, s_.stop)
                                 for r, s_ in a.items()))
                for v, a in al.items()),
            tables=res_tables(tables))
        if mutate:
            pl.clear()
            for tb in tables.values():
                del tb[:]
        return json.loads(json.dumps(out))
    if kind in ("chain", "route"):
        case = desc[1]
        rp = imp("rig.place_and_route")
        exc = imp("rig.place_and_route.exceptions")
        rt = imp("rig.routing_table")
        wr = imp("rig.place_and_route.wrapper")
        m = case["machine"]
        machine = par.build_machine(m)
        if case.get("reuse_machine"):
            # the application's one Machine object of this size, edited in
            # place to describe the machine as it is now
            kept = _KEPT_MACHINES.setdefault((m["w"], m["h"]), machine)
            if kept is not machine and case["seed"] % 2:
                kept.chip_resources = machine.chip_resources
                kept.chip_resource_exceptions = \
                    machine.chip_resource_exceptions
                kept.dead_chips = machine.dead_chips
                kept.dead_links = machine.dead_links
                machine = kept
            elif kept is not machine:
                # ... or edited through the containers it already holds
                # (machine.dead_links.add(...), .discard(...))
                if ctx is not None:
                    ctx.hit("machine_edited_through_its_containers")
                for mine, new in ((kept.chip_resources,
                                   machine.chip_resources),
                                  (kept.chip_resource_exceptions,
                                   machine.chip_resource_exceptions)):
                    mine.clear()
                    mine.update(new)
                for mine, new in ((kept.dead_chips, machine.dead_chips),
                                  (kept.dead_links, machine.dead_links)):
                    for it in list(mine - new):
                        mine.discard(it)
                    for it in new - mine:
                        mine.add(it)
                machine = kept
        kp = case.get("keep")
        vr = keep(kp, "vr", par.build_vertices(case["vertices"]), ctx)
        nets = keep(kp, "nets", par.build_nets(case["nets"]), ctx)
        cd = list(case["constraints"]) + [("reserve", "Cores", 0, 1, None)]
        cons = keep(kp, "cons", par.build_constraints(cd), ctx)
        net_keys = keep(kp, "net_keys", {n: (0x1000 + 16 * i, 0xfffffff0)
                                         for i, n in enumerate(nets)}, ctx)
        rng = _random.Random(case["seed"])
        placer = case["placer"]
        if placer == "sa-c":
            pf = imp("rig.place_and_route.place.sa").place
            pkw = dict(effort=0.1, random=rng, kernel=imp(
                "rig.place_and_route.place.sa.c_kernel").CKernel)
        elif placer == "rand":
            pf, pkw = imp("rig.place_and_route.place.rand").place, \
                dict(random=rng)
        else:
            pf, pkw = imp("rig.place_and_route.place." + placer).place, {}
        methods = {"none": (), "rde": (wr.remove_default_entries,),
                   "oc": (wr.ordered_covering,),
                   "chain": (wr.remove_default_entries,
                             wr.ordered_covering)}[case["minimiser"]]
        res = {}
        try:
            w = Watch(ctx, "place", vr=vr, nets=nets, machine=machine,
                      cons=cons)
            pl = pf(vr, nets, machine, cons, **pkw)
            w.verify()
            pl = keep(kp, "placements", pl, ctx)
            res["placements"] = sorted((repr(v), list(xy))
                                       for v, xy in pl.items())
            w = Watch(ctx, "allocate", vr=vr, nets=nets, machine=machine,
                      cons=cons, placements=pl)
            al = rp.allocate(vr, nets, machine, cons, pl)
            w.verify()
            al = keep(kp, "allocations", al, ctx)
            res["allocations"] = sorted(
                (repr(v), sorted((repr(r), s.start, s.stop)
                                 for r, s in a.items()))
                for v, a in al.items())
            w = Watch(ctx, "route", vr=vr, nets=nets, machine=machine,
                      cons=cons, placements=pl, allocations=al)
            routes = rp.route(vr, nets, machine, cons, pl, al,
                              radius=case["radius"])
            w.verify()
            routes = keep(kp, "routes", routes, ctx)
            res["routes"] = [json.loads(json.dumps(snap(routes[n])))
                             for n in nets]
            if kind == "chain":
                w = Watch(ctx, "routing_tree_to_tables", routes=routes,
                          net_keys=net_keys)
                tables = rt.routing_tree_to_tables(routes, net_keys)
                w.verify()
                res["tables"] = res_tables(tables)
                if methods:
                    tables = keep(kp, "tables", dict(tables), ctx)
                    w = Watch(ctx, "minimise_tables", tables=tables)
                    mt = rt.minimise_tables(tables, None, methods)
                    w.verify()
                    res["minimised"] = res_tables(mt)
                    if mutate:
                        for tb in mt.values():
                            del tb[:]
                if mutate:
                    for tb in tables.values():
                        tb.append(tb[0]) if tb else None
            if mutate:
                pl.clear()
                for a in al.values():
                    a.clear()
                for n in nets:
                    del routes[n].children[:]
        except (exc.InsufficientResourceError, exc.InvalidConstraintError,
                exc.MachineHasDisconnectedSubregion,
                rt.MinimisationFailedError) as e:
            res["raised"] = type(e).__name__
        return json.loads(json.dumps(res))
    if kind == "minimise":
        _, t, fn, target = desc
        rt = imp("rig.routing_table")
        mods = (imp("rig.routing_table.ordered_covering"),
                imp("rig.routing_table.remove_default_routes"),
                imp("rig.routing_table.minimise"))
        table = keep(t.get("keep"), "table",
                     c04.build(t, rt.RoutingTableEntry, rt.Routes), ctx)
        w = Watch(ctx, fn, table=table)
        try:
            new = c04.call_min(mods, fn, table, target)
        except rt.MinimisationFailedError as e:
            w.verify()
            return ["raised", "MinimisationFailedError", e.final_length]
        w.verify()
        out = res_tables({(0, 0): new})
        if mutate and new is not table:
            del new[:]
        return json.loads(json.dumps(out))
    if kind == "bitfield":
        case = desc[1]
        B = imp("rig.bitfield")
        bf = B.BitField(case["L"])
        log = []
        for op in case["ops"]:
            try:
                if op[0] == "add":
                    tags = op[5]
                    if isinstance(tags, tuple) and tags and tags[0] == "set":
                        # a constant of the application, shared by every bit
                        # field this process ever defines
                        tags = APP_TAG_SETS[tags[1]]
                    elif isinstance(tags, tuple) and tags and \
                            tags[0] == "tuple":
                        tags = tuple(tags[1])
                    bf(**op[1]).add_field(op[2], length=op[3], start_at=op[4],
                                          tags=tags)
                    if ctx is not None:
                        ctx.hit("argument_snapshot")
                        for k_, want_ in enumerate(c08.TAGSETS):
                            check(APP_TAG_SETS[k_] == set(want_),
                                  "argument-mutated",
                                  "add_field(): the set passed as tags= is "
                                  "now %r" % (sorted(APP_TAG_SETS[k_]),),
                                  call="add_field")
                    log.append("ok")
                elif op[0] == "val":
                    bf(**op[1])
                    log.append("ok")
                elif op[0] == "layout":
                    bf.assign_fields()
                    log.append("ok")
                else:
                    b = bf(**op[1])
                    log.append([b.get_value(), b.get_mask(),
                                sorted([t, b.get_mask(tag=t)]
                                       for t in ("t1", "t2", "t3")
                                       if _has_tag(b, t))])
            except RecursionError:
                log.append("RecursionError")
                break
            except (ValueError, LookupError) as e:
                log.append(type(e).__name__)
        return log
    if kind == "objects":
        from ..sim import net as simnet
        mcm = imp("rig.machine_control.machine_controller")
        bmp = imp("rig.machine_control.bmp_controller")
        sc = imp("rig.machine_control.scp_connection")
        rt = imp("rig.routing_table")
        rp = imp("rig.place_and_route")
        ctxs = imp("rig.utils.contexts")
        netw = simnet.Net()
        netw.bind(sc, mcm, bmp)
        rng = _random.Random(desc[1])
        mc = mcm.MachineController("h%d" % rng.randrange(9))
        bc = bmp.BMPController("b%d" % rng.randrange(9))
        out = dict(mc=sorted(mc.get_context_arguments().items()),
                   bmp=sorted(bc.get_context_arguments().items()),
                   nn_id=mc._get_next_nn_id(),
                   seq=next(mc.connections[None].seq))
        machine = rp.Machine(2, 3)
        out["machine"] = json.loads(json.dumps(snap(machine), default=repr))
        e = rt.RoutingTableEntry({rt.Routes(1)}, 1, 0xf)
        out["entry_sources"] = sorted(repr(s) for s in e.sources)
        ci = mcm.ChipInfo()
        out["chipinfo"] = [ci.num_cores, len(ci.core_states),
                           sorted(int(l) for l in ci.working_links)]
        c = ctxs.Context({})
        out["context"] = sorted(c.context_arguments.items())
        # boot a board through a controller: history calls ask for board
        # options, the probe asks for none and must not inherit any
        from . import c20
        from ..sim import machine as simm
        bootm = imp("rig.machine_control.boot")
        netw.bind(bootm)
        sent = []
        host = "boot%d" % rng.randrange(9)
        netw.add_host(host, lambda sock, addr, data: sent.append(
            bytes(data)) if addr[1] == 54321 else None)
        own_structs = None
        if rng.random() < .5:
            # the caller's own dictionary of struct definitions (say, of the
            # firmware it built): the controller may use it, not edit it
            sf = imp("rig.machine_control.struct_file")
            with open(bootm.pkg_resources.resource_filename(
                    "rig", "boot/sark.struct"), "rb") as f_:
                own_structs = sf.read_struct_file(f_.read())
            own_structs.pop(b"vcpu", None)
            own_structs[b"sv"].base += 0x100
            def deep_(d_):
                # everything the caller's definitions say: per struct its
                # base, size and every field's layout and default value
                return sorted(
                    (k_, st_.base, st_.size,
                     sorted((fk_, tuple(fv_)) for fk_, fv_ in
                            st_.fields.items()))
                    for k_, st_ in d_.items())
            own_deep = deep_(own_structs)
            own_before = (sorted(own_structs), own_structs[b"sv"].base,
                          id(own_structs[b"sv"]))
            bmc = mcm.MachineController(host, structs=own_structs)
        else:
            bmc = mcm.MachineController(host)
        bopts, bdict = {}, None
        if mutate:
            bopts = dict(getattr(bootm, rng.choice(
                ["spin3_boot_options", "spin5_boot_options"])))
            bdict = {"utmp%d" % rng.randrange(4): rng.getrandbits(32)}
        bkw = dict(bopts)
        given = None
        if rng.random() < .4:
            given = bkw["sv_overrides"] = dict(bdict or {})
            before = dict(given)
        bmc.boot(only_if_needed=False, check_booted=False, boot_delay=0.0,
                 **bkw)
        if given is not None and ctx is not None:
            ctx.hit("argument_snapshot")
            check(given == before, "argument-mutated",
                  "boot(): sv_overrides passed as %r is now %r" %
                  (before, given), call="boot")
        if own_structs is not None and ctx is not None:
            ctx.hit("argument_snapshot")
            check((sorted(own_structs), own_structs[b"sv"].base,
                   id(own_structs[b"sv"])) == own_before, "argument-modified",
                  "boot() edited the structs dictionary the controller was "
                  "made with: keys %r -> %r, sv base %#x -> %#x" %
                  (own_before[0][:4], sorted(own_structs)[:4], own_before[1],
                   own_structs[b"sv"].base), call="boot")
            now_ = deep_(own_structs)
            if now_ != own_deep:
                diff_ = [(a_[0], [x_ for x_, y_ in zip(a_[3], b_[3])
                                  if x_ != y_][:3])
                         for a_, b_ in zip(own_deep, now_) if a_ != b_]
                check(False, "argument-modified",
                      "boot() edited the struct definitions the controller "
                      "was made with (they were, struct / fields): %r" %
                      (diff_[:2],), call="boot")
        area = bytearray(b"".join(c20.decode(d)[3] for d in sent[1:-1])
                         [384:512])
        for fld in ("unix_time", "boot_sig"):       # clock-dependent
            ch_, off_, _, _ = simm.structs()["sv"]["fields"][fld]
            area[off_:off_ + 4] = b"\0\0\0\0"
        out["boot_area"] = bytes(area).hex()
        out["boot_structs"] = sorted(
            (k.decode(), f.default) for k, f in bmc.structs[b"sv"].fields.items()
            if k not in (b"unix_time", b"boot_sig"))
        if mutate:
            # use the objects the way applications do
            mc.update_current_context(x=rng.randrange(4), app_id=99)
            bc.update_current_context(board=5)
            with mc(y=3, p=4):
                mc.update_current_context(p=7)
            machine.chip_resources[rp.Cores] = 1
            machine.chip_resource_exceptions[(0, 0)] = {rp.Cores: 0}
            machine.dead_chips.add((1, 1))
            machine.dead_links.add((0, 0, 1))
            e.sources.add(rt.Routes(2))
            c.update(dict(x=1))
            for _ in range(rng.randrange(5)):
                mc._get_next_nn_id()
        return json.loads(json.dumps(out))
    raise AssertionError(kind)


# ------------------------------------------------------------------ zygote
_zygote = []


def fresh_result(desc, seed):
    if not _zygote:
        env = dict(os.environ, PYTHONWARNINGS="ignore",
                   PYTHONHASHSEED=os.environ.get("PYTHONHASHSEED", "0"),
                   PYTHONPATH=VERIF + os.pathsep + os.environ.get(
                       "PYTHONPATH", ""))
        _zygote.append(subprocess.Popen(
            [sys.executable, "-m", "rv.fresh"], stdin=subprocess.PIPE,
            stdout=subprocess.PIPE, cwd=VERIF, env=env,
            universal_newlines=True))
    z = _zygote[0]
    z.stdin.write(json.dumps(dict(desc=repr((desc, seed)))) + "\n")
    z.stdin.flush()
    line = z.stdout.readline()
    if not line:
        raise RuntimeError("fresh-interpreter helper died")
    return json.loads(line)


def setup(tier):
    preload()


def run(case, ctx):
    _KEPT_MACHINES.clear()
    _KEPT.clear()
    for k_, t_ in enumerate(c08.TAGSETS):   # undo what a broken tree did
        APP_TAG_SETS[k_].clear()
        APP_TAG_SETS[k_].update(t_)
    own = case["probe"][0]
    same_family = mutated = False
    for desc, mutate in case["history"]:
        ctx.hit("history_call")
        try:
            execute(desc, ctx, mutate=mutate, seed=case["seed"] ^ 0x5a5a)
        except Violation:
            raise
        except Exception as e:
            # a failing history call is part of the history; the probe below
            # still has to be unaffected
            ctx.count("history_call_raised")
        if desc[0] == own:
            same_family = True
        if mutate:
            mutated = True
            ctx.hit("returned_object_mutated")
    try:
        here = execute(case["probe"], ctx, mutate=False, seed=case["seed"],
                       scramble=True)
    except Violation:
        raise
    except Exception as e:
        here = ["exception", type(e).__name__]
    there = fresh_result(("PROBE", case["probe"]), case["seed"])
    ctx.hit("probe_compared")
    is_exc = isinstance(here, list) and here[:1] == ["exception"]
    if "error" in there:
        first = there["error"].split(":")[0]
        check(is_exc and here[1] == first,
              "probe-differs-from-fresh-interpreter",
              "after the history the probe returned %r; in a fresh "
              "interpreter it failed: %s" % (str(here)[:200],
                                             there["error"][:300]),
              probe_kind=own)
    else:
        check(here == there["result"], "probe-differs-from-fresh-interpreter",
              "probe %s: result after a history of %d calls differs from "
              "its result as the first call of a fresh interpreter: %s" %
              (own, len(case["history"]), first_diff(here, there["result"])),
              probe_kind=own)
    if same_family and mutated and not is_exc:
        ctx.mark_nontrivial()
    ctx.note(dict(probe=own, history=[d[0] for d, _ in case["history"]],
                  result=str(here)[:200]))
    return "ok"


def first_diff(a, b, path="result"):
    if type(a) != type(b):
        return "%s: %r vs %r" % (path, str(a)[:80], str(b)[:80])
    if isinstance(a, dict):
        for k in sorted(set(a) | set(b)):
            if a.get(k) != b.get(k):
                return first_diff(a.get(k), b.get(k), path + "." + str(k))
    if isinstance(a, list):
        if len(a) != len(b):
            return "%s: length %d vs %d" % (path, len(a), len(b))
        for i, (x, y) in enumerate(zip(a, b)):
            if x != y:
                return first_diff(x, y, "%s[%d]" % (path, i))
    return "%s: %r vs %r" % (path, str(a)[:80], str(b)[:80])
