"""C02 - every placer returns a feasible, constraint-respecting placement or
fails as documented.

Oracle: independent feasibility recomputation from the literal case.  The SA
kernels are observed through the documented `kernel=` extension point: a
monitoring subclass checks, at every quiescent point (return of run_steps),
that the kernel's own placement respects the per-chip budget it was handed.
The C kernel runs as an ASan+UBSan+assert build (see rv/asan_build.py)."""
import collections
import importlib
import os
import random as _random
import sys

from ..core import check, Violation, Rejected
from ..gen import par

ID = "C02"
IMPORTS = ['rig.place_and_route', 'rig.place_and_route.place.sa', 'rig.place_and_route.place.rand']
LEVEL = "exploration"
TECHNIQUE = ("runtime post-condition monitor (independent feasibility "
             "oracle) + invariant hook at kernel quiescent points + "
             "ASan/UBSan/assert build of the C annealing kernel")
LEVEL_TEXT = ("All seven placers and both annealing kernels are run on "
              "generated problems (dead chips, per-chip exceptions, tight and "
              "infeasible demands, vertices needing nothing, location / "
              "chained and duplicated same-chip / global and per-chip "
              "reservation constraints, efforts, seeds, custom orders); the "
              "returned placement is re-checked from first principles, only "
              "the two documented errors are accepted, success is demanded "
              "on the documented easy class, annealing progress is bounded in "
              "kernel calls and the native kernel runs under sanitizers."
              ' A share of the random and annealing placements is driven by a random.Random whose primitives return the ends of their ranges.')
LEVEL_NOTE = ("Trusted: the harness's capacity arithmetic and union-find over "
              "same-chip groups. A clean sanitizer run is not memory safety; "
              "CPython and libffi are uninstrumented (leak checking off).")
RULE = ("one case = one problem + one placer configuration; non-trivial = a "
        "placement was returned for >= 3 vertices on a machine with >= 2 live "
        "chips and at least one constraint or resource exception applies; "
        "distinct by case")
ASSUMPTIONS = [
    "resource quantities are ints in [0, 2**31); vertices only need resources "
    "the machine defines; reservations lie inside every chip they apply to",
    "same-chip groups and location constraints are mutually consistent",
    "success class: one resource, needs in {0,1}, no same-chip groups, "
    "located vertices fit on their live chips, total free capacity suffices, "
    "at most one location constraint per vertex (a repeated identical "
    "location constraint makes rig subtract the vertex twice and may fail "
    "with the documented InsufficientResourceError: over-conservative, not "
    "infeasible, so it is outside the success clause and not reported)",
]
FLOORS = {"generator_at_the_ends_of_its_range": 200, "order_given_as_iter": 20, "order_given_as_tuple": 20, "temperature_callback_placement": 200, "stopped_by_callback": 20,
          "feasibility_checked": 300, "easy_must_succeed": 100,
          "kernel_quiescent_invariant": 200, "c_kernel_under_asan": 20,
          "documented_error": 20}
ANCHORS = [("rig.place_and_route.place.sa.python_kernel", "_step",
            {"dead_destination": "if dst_location not in machine:",
             "destination_too_small": ("return (False, 0.0)", 2),
             "source_too_small": ("return (False, 0.0)", 3),
             "swap_done": "_swap([src_vertex], src_location,"}),
           ("rig.place_and_route.place.utils", "apply_same_chip_constraints",
            {"group_merged": "merged_vertex = MergedVertex("})]
SHARDS = {"quick": 16, "thorough": 64}
TIMEOUT = {"quick": 900, "thorough": 6 * 3600}
CRASH_IS_VIOLATION = True
MAX_RUN_STEPS = 20000

PLACERS = ["sequential", "breadth_first", "hilbert", "rcm", "rand", "sa-py",
           "sa-c"]
KF_CK32 = "c-kernel-quantities-beyond-32-bit"
CLASSES = ["easy", "general", "tight", "infeasible", "groups", "tiny",
           "deadloc", "sa_tight", "alldead", "huge_tight", "easy_full"]

_asan = {}


def worker_env(tier):
    from .. import asan_build
    env, why = asan_build.env_for_workers()
    if why:
        env = {"RV_ASAN_WHY": why[:300]}
    return env


def setup(tier):
    d = os.environ.get("RV_ASAN_DIR")
    if d and d not in sys.path:
        sys.path.insert(0, d)
    if d:
        import _rig_c_sa
        _asan["on"] = os.path.dirname(os.path.realpath(
            _rig_c_sa.__file__)) == os.path.realpath(d)
    else:
        _asan["on"] = False


class HostileRandom(_random.Random):
    """A random.Random whose two primitives return, for most draws, the
    lowest or the highest value they can (0.0 / 1 - 2**-53, all bits clear /
    all bits set) - every outcome of a generator is an outcome the placer has
    to cope with.  Never more than two "all bits set" in a row, so that the
    standard library's own rejection loops (randrange, choice, shuffle)
    terminate."""

    def __init__(self, seed):
        super().__init__(seed)
        self._n = 0
        self._pat = (seed * 2654435761) & 0xffffff

    def _mode(self):
        self._n += 1
        if self._n % 7 == 0:
            return None                     # an ordinary draw
        hi = self._pat >> (self._n % 24) & 1
        if hi and self._n % 3 == 0:
            hi = 0
        return hi

    def random(self):
        m = self._mode()
        if m is None:
            return super().random()
        return 1.0 - 2.0 ** -53 if m else 0.0

    def getrandbits(self, k):
        m = self._mode()
        if m is None:
            return super().getrandbits(k)
        return (1 << k) - 1 if m else 0


def hostile_random(ctx, seed):
    if seed % 6:
        return _random.Random(seed)
    ctx.hit("generator_at_the_ends_of_its_range")
    return HostileRandom(seed)


def plan(tier):
    n = 1000 if tier == "quick" else 70000
    return [(c, n) for c in CLASSES] + \
        [("many", 28 if tier == "quick" else 700)]


def gen(cls, idx, rng, tier):
    easy = cls == "easy"
    if cls == "sa_tight":
        return gen_sa_tight(rng, idx)
    if cls == "huge_tight":
        # quantities that differ only far below the precision of a double:
        # three "big" vertices fit a chip only if their small parts do
        B = rng.choice([1 << 55, 10 ** 16, (1 << 60) + 5])
        w, h = rng.choice([(2, 1), (2, 2), (3, 2)])
        m = dict(w=w, h=h, res={"Cores": 18, "SDRAM": 3 * B + 3}, exc={},
                 dead_chips=[], dead_links=[])
        vs = []
        for i in range(rng.randint(2 * w * h, 3 * w * h)):
            vs.append((i, {"Cores": 1, "SDRAM": B + rng.choice([1, 1, 2])}))
        for j in range(rng.randint(2, 8)):
            vs.append(("light%d" % j, {"Cores": 1}))    # says nothing of SDRAM
        names_ = [v for v, _ in vs]
        nets_ = [(rng.choice(names_), [rng.choice(names_)
                                       for _ in range(rng.randint(1, 4))], 1.0)
                 for _ in range(rng.randint(3, 10))]
        placer = PLACERS[idx % len(PLACERS)]
        if placer == "sa-c":
            placer = "sa-py"        # beyond the C kernel's 32 bits (D18)
        kw = dict(effort=rng.choice([0.01, 0.1]), seed=rng.randrange(1 << 30),
                  stop_after=None) if placer.startswith("sa-") else \
            dict(seed=rng.randrange(1 << 30)) if placer == "rand" else {}
        return dict(machine=m, vertices=vs, nets=nets_, constraints=[],
                    placer=placer, kw=kw, easy=False)
    if cls == "easy_full":
        # the success clause at its limit: unit vertices that exactly fill
        # the live chips; machines of a few recurring sizes with changing
        # dead chips follow each other in one process
        w, h = rng.choice([(2, 2), (3, 2), (3, 3), (4, 2), (4, 4)])
        c = rng.choice([1, 2, 3])
        dead = sorted({(rng.randrange(w), rng.randrange(h))
                       for _ in range(rng.randint(0, max(1, w * h // 3)))})
        if len(dead) == w * h:
            dead = dead[1:]
        m = dict(w=w, h=h, res={"Cores": c}, exc={}, dead_chips=dead,
                 dead_links=[])
        n_live = w * h - len(dead)
        nv = n_live * c - rng.choice([0, 0, 0, 1])
        vs = [(i, {"Cores": 1}) for i in range(nv)]
        nets_ = [(rng.randrange(max(1, nv)), [rng.randrange(max(1, nv))
                                              for _ in range(rng.randint(1, 3))],
                  1.0) for _ in range(rng.randint(0, 6))] if nv else []
        placer = PLACERS[idx % len(PLACERS)]
        kw = dict(effort=rng.choice([0, 0.1]), seed=rng.randrange(1 << 30),
                  stop_after=None) if placer.startswith("sa-") else \
            dict(seed=rng.randrange(1 << 30)) if placer == "rand" else {}
        return dict(machine=m, vertices=vs, nets=nets_, constraints=[],
                    placer=placer, kw=kw, easy=True)
    if cls == "many":
        # netlists of thousands of vertices (a chain, a star and a tree, so
        # that whatever walks the netlist walks far) on machines of hundreds
        # of chips
        w, h = rng.randint(10, 24), rng.randint(10, 24)
        c = rng.choice([4, 18])
        dead = sorted({(rng.randrange(w), rng.randrange(h))
                       for _ in range(rng.randint(0, 6))})
        m = dict(w=w, h=h, res={"Cores": c}, exc={}, dead_chips=dead,
                 dead_links=[])
        nv = min((w * h - len(dead)) * c,
                 rng.choice([600, 1100, 1500, 2500, 4000]))
        vs = [(i, {"Cores": 1}) for i in range(nv)]
        shape = rng.choice(["chain", "star", "tree", "mixed"])
        nets_ = []
        if shape in ("chain", "mixed"):
            nets_ += [(i, [i + 1], 1.0) for i in range(nv - 1)]
        if shape in ("star", "mixed"):
            nets_ += [(0, list(range(1, nv, max(1, nv // 700))), 0.5)]
        if shape == "tree":
            nets_ += [(i, [j for j in (2 * i + 1, 2 * i + 2) if j < nv], 2.0)
                      for i in range((nv - 1) // 2)]
        placer = PLACERS[idx % len(PLACERS)]
        if placer == "sa-py":
            placer = rng.choice(["sequential", "breadth_first", "hilbert",
                                 "rcm"])
        kw = dict(effort=0, seed=rng.randrange(1 << 30),
                  stop_after=None) if placer.startswith("sa-") else \
            dict(seed=rng.randrange(1 << 30)) if placer == "rand" else \
            dict(breadth_first=rng.random() < .5) if placer == "hilbert" \
            else {}
        return dict(machine=m, vertices=vs, nets=nets_, constraints=[],
                    placer=placer, kw=kw, easy=True)
    if cls == "alldead":
        m = par.gen_machine(rng, max_w=3, max_h=3, p_dead=0)
        m["dead_chips"] = [(x, y) for x in range(m["w"])
                           for y in range(m["h"])]
        m["exc"] = {}
        nv = rng.randint(0, 3)
        vs = [(i, {"Cores": 1}) for i in range(nv)]
        placer = PLACERS[idx % len(PLACERS)]
        kw = dict(effort=0.1, seed=1) if placer.startswith("sa-") else \
            dict(seed=1) if placer == "rand" else {}
        return dict(machine=m, vertices=vs, nets=[(0, [0], 1)] if nv else [],
                    constraints=[], placer=placer, kw=kw, easy=False)
    if cls == "tiny":
        m = par.gen_machine(rng, max_w=2, max_h=2, p_dead=.2)
    elif easy:
        m = par.gen_machine(rng, max_w=5, max_h=5,
                            res={"Cores": rng.choice([1, 2, 18])})
    else:
        m = par.gen_machine(rng, max_w=5, max_h=5)
    chips = par.live_chips(m)
    cons = par.gen_reservations(rng, m, n_max=2,
                                ends_only=rng.random() < .7) \
        if rng.random() < .5 else []
    total = collections.Counter()
    for xy in chips:
        for k, v in par.capacity(m, cons, xy).items():
            total[k] += max(0, v)
    nv = rng.randint(0, 14)
    vertices = []
    for i in range(nv):
        v = i if rng.random() < .8 else rng.choice(
            ["v%d" % i, ("pop", i), (i,)])
        if easy:
            r = {"Cores": rng.choice([0, 1, 1])} if rng.random() < .9 else {}
        elif cls == "tight":
            r = {k: rng.choice([0, 1, max(1, m["res"][k] // 2), m["res"][k]])
                 for k in m["res"] if rng.random() < .8}
        elif cls == "infeasible":
            r = {k: rng.choice([1, m["res"][k], m["res"][k] + 1,
                                total[k] + 1]) for k in m["res"]
                 if rng.random() < .8}
        else:
            r = {k: rng.choice([0, 1, 1, max(1, m["res"][k] // 4),
                                m["res"][k] // 2]) for k in m["res"]
                 if rng.random() < .8}
        vertices.append((v, r))
    if cls != "infeasible":
        # trim so that total demand fits the free capacity (bin packing and
        # located vertices may still make the problem infeasible)
        slack = 1.0 if easy or cls == "tight" else rng.choice([1.0, .8, .6])
        while vertices and any(
                sum(r.get(k, 0) for _, r in vertices) > slack * total[k]
                for k in m["res"]):
            vertices.pop(rng.randrange(len(vertices)))
    names = [v for v, _ in vertices]
    nets = []
    if names:
        for _ in range(rng.randint(0, 6)):
            nets.append((rng.choice(names),
                         [rng.choice(names) for _ in range(rng.randint(1, 5))],
                         rng.choice([1, 1.0, 0, 2.5])))
    located = {}
    if names and rng.random() < .5:
        for v in rng.sample(names, min(len(names), rng.randint(1, 3))):
            if cls == "deadloc" and rng.random() < .5:
                loc = rng.choice(m["dead_chips"] + [(m["w"], 0), (0, m["h"])])
            else:
                loc = rng.choice(chips)
            located[v] = tuple(loc)
            cons.append(("loc", v, tuple(loc)))
            if rng.random() < .08:
                cons.append(("loc", v, tuple(loc)))    # duplicated, consistent
    if not easy and len(names) > 2 and (cls == "groups" or rng.random() < .3):
        parent = {v: v for v in names}

        def find(a):
            while parent[a] != a:
                a = parent[a]
            return a
        for _ in range(rng.randint(1, 3)):
            g = [rng.choice(names) for _ in range(rng.randint(1, 4))]
            if rng.random() < .2:
                g.append(g[0])                          # duplicated member
            roots = {find(v) for v in g}
            locs = {located[v] for v in names
                    if v in located and find(v) in roots}
            if len(locs) <= 1:
                for v in g[1:]:
                    parent[find(v)] = find(g[0])
                cons.append(("same", g))
    rng.shuffle(cons)
    placer = PLACERS[idx % len(PLACERS)]
    kw = {}
    if placer in ("sa-py", "sa-c"):
        kw = dict(effort=rng.choice([0, 0.01, 0.1] if placer == "sa-py"
                                    else [0, 0.1, 1.0]),
                  seed=rng.randrange(1 << 30),
                  stop_after=rng.choice([None, None, 1, 3, 10]))
    elif placer == "rand":
        kw = dict(seed=rng.randrange(1 << 30))
    elif placer == "sequential" and rng.random() < .6:
        vo = list(names)
        rng.shuffle(vo)
        co = [(x, y) for x in range(m["w"]) for y in range(m["h"])]
        rng.shuffle(co)
        if rng.random() < .3:
            co += [(m["w"] + 1, 0)]
        kw = dict(vertex_order=vo if rng.random() < .7 else None,
                  chip_order=co if rng.random() < .7 else None,
                  # "None or iterable": as a list, a tuple, a one-shot
                  # iterator
                  order_form=rng.choice(["list", "list", "tuple", "iter"]))
    elif placer == "hilbert":
        kw = dict(breadth_first=rng.random() < .5)
    scaled = None
    if not easy and rng.random() < .08:
        # the same problem in much larger units: every quantity of one
        # resource multiplied by a big number (placement is scale-free)
        name = rng.choice(sorted(m["res"]))
        k = rng.choice([(1 << 20) + 1, (1 << 33) + 1, (1 << 54) + 1,
                        10 ** 17 + 7])
        scaled = (name, k)
        m["res"][name] *= k
        for xy in m["exc"]:
            if name in m["exc"][xy]:
                m["exc"][xy][name] *= k
        vertices = [(v, {n: q * k if n == name else q for n, q in r.items()})
                    for v, r in vertices]
        cons = [(c[0], c[1], c[2] * k, c[3] * k, c[4])
                if c[0] == "reserve" and c[1] == name else c for c in cons]
    return dict(machine=m, vertices=vertices, nets=nets, constraints=cons,
                placer=placer, kw=kw, easy=easy, scaled=scaled)


def gen_sa_tight(rng, idx):
    """Nearly full machines with mixed vertex sizes and many nets: annealing
    swaps are frequently infeasible, so the kernels' fit tests are on the hot
    path."""
    cores = rng.choice([3, 4, 6])
    m = par.gen_machine(rng, max_w=4, max_h=4, min_w=2, min_h=2,
                        res={"Cores": cores, "SDRAM": 10}, p_dead=.3,
                        p_exc=.6)
    chips = par.live_chips(m)
    cons = par.gen_reservations(rng, m, n_max=2) if rng.random() < .4 else []
    vertices = []
    for xy in chips:
        cap = par.capacity(m, cons, xy)
        left = dict(cap)
        while left["Cores"] > 0 and len(vertices) < 40:
            q = rng.randint(1, max(1, min(left["Cores"], cores - 1)))
            s = rng.randint(0, max(0, min(left["SDRAM"], 4)))
            left["Cores"] -= q
            left["SDRAM"] -= s
            vertices.append((len(vertices), {"Cores": q, "SDRAM": s}))
            if rng.random() < .15:
                break
    rng.shuffle(vertices)
    names = [v for v, _ in vertices]
    nets = [(rng.choice(names), [rng.choice(names)
                                 for _ in range(rng.randint(1, 4))],
             rng.choice([1, 2.0])) for _ in range(len(names))] if names else []
    if names and rng.random() < .5:
        v = rng.choice(names)
        fits = [xy for xy in chips
                if all(par.capacity(m, cons, xy)[k] >= q
                       for k, q in dict(vertices)[v].items())]
        if fits:
            cons.append(("loc", v, rng.choice(fits)))
    placer = "sa-py" if idx % 2 else "sa-c"
    kw = dict(effort=rng.choice([0.05, 0.1, 0.3] if placer == "sa-py"
                                else [0.3, 1.0, 3.0]),
              seed=rng.randrange(1 << 30),
              stop_after=rng.choice([None, 2, 5]))
    return dict(machine=m, vertices=vertices, nets=nets, constraints=cons,
                placer=placer, kw=kw, easy=False)


# ------------------------------------------------------------------ oracle
def groups_of(names, cons):
    parent = {v: v for v in names}

    def find(a):
        while parent[a] != a:
            parent[a] = parent[parent[a]]
            a = parent[a]
        return a
    for c in cons:
        if c[0] == "same":
            for v in c[1][1:]:
                parent[find(v)] = find(c[1][0])
    g = collections.defaultdict(list)
    for v in names:
        g[find(v)].append(v)
    return [vs for vs in g.values() if len(vs) > 1]


def must_succeed(case):
    m, cons = case["machine"], case["constraints"]
    if list(m["res"]) != ["Cores"] or any(c[0] == "same" for c in cons):
        return False
    need = dict(case["vertices"])
    if any(set(r) - {"Cores"} or r.get("Cores", 0) not in (0, 1)
           for r in need.values()):
        return False
    chips = par.live_chips(m)
    if not chips:
        return False
    cap = {xy: par.capacity(m, cons, xy)["Cores"] for xy in chips}
    if min(cap.values()) < 0:
        return False
    # a global reservation must also fit the default resources (dead chips'
    # figures are irrelevant to the user but not checked separately by rig)
    dflt = m["res"]["Cores"] - sum(c[3] - c[2] for c in cons
                                   if c[0] == "reserve" and c[4] is None)
    if dflt < 0:
        return False
    loc = {}
    for c in cons:
        if c[0] == "loc":
            if tuple(c[2]) not in cap or c[1] in loc:
                return False    # dead chip / vertex located twice (see A)
            loc[c[1]] = tuple(c[2])
    for v, xy in loc.items():
        cap[xy] -= need[v].get("Cores", 0)
    if min(cap.values()) < 0:
        return False
    rest = sum(r.get("Cores", 0) for v, r in need.items() if v not in loc)
    return rest <= sum(cap.values())


def monitored(kernel_cls, ctx, stats, label):
    class Monitored(kernel_cls):
        def __init__(self, vertices_resources, movable_vertices,
                     fixed_vertices, initial_placements, nets, machine,
                     random, **kw):
            self._res = dict(vertices_resources)
            self._fixed = {v: initial_placements[v] for v in fixed_vertices}
            self._budget = {}
            use = collections.defaultdict(collections.Counter)
            for v, xy in initial_placements.items():
                for r, q in vertices_resources[v].items():
                    use[xy][r] += q
            for xy in machine:
                self._budget[xy] = {r: q + use[xy][r]
                                    for r, q in machine[xy].items()}
            self._live = set(machine)
            self._all = set(vertices_resources)
            kernel_cls.__init__(self, vertices_resources, movable_vertices,
                                fixed_vertices, initial_placements, nets,
                                machine, random, **kw)
            self._check("after construction")

        def _check(self, when):
            ctx.hit("kernel_quiescent_invariant")
            pl = self.get_placements()
            check(set(pl) == self._all, "kernel-lost-vertex",
                  "%s %s: kernel placement has %d of %d vertices" %
                  (label, when, len(pl), len(self._all)))
            use = collections.defaultdict(collections.Counter)
            for v, xy in pl.items():
                xy = tuple(xy)
                check(xy in self._live, "kernel-on-dead-chip",
                      "%s %s: %r on %r" % (label, when, v, xy))
                for r, q in self._res[v].items():
                    use[xy][r] += q
            for xy, u in use.items():
                for r, q in u.items():
                    check(q <= self._budget[xy][r], "kernel-overcommits-chip",
                          "%s %s: chip %r uses %d of %r, budget %d" %
                          (label, when, xy, q, r, self._budget[xy][r]))
            for v, xy in self._fixed.items():
                check(tuple(pl[v]) == tuple(xy), "kernel-moved-fixed-vertex",
                      "%s %s: %r moved from %r to %r" % (label, when, v, xy,
                                                        pl[v]))

        def run_steps(self, *a):
            stats["run_steps"] += 1
            check(stats["run_steps"] <= MAX_RUN_STEPS, "no-bounded-progress",
                  "%s: more than %d run_steps calls" % (label, MAX_RUN_STEPS))
            out = kernel_cls.run_steps(self, *a)
            self._check("after run_steps #%d" % stats["run_steps"])
            return out
    Monitored.__name__ = "Monitored" + kernel_cls.__name__
    return Monitored


def run(case, ctx):
    imp = importlib.import_module
    exc = imp("rig.place_and_route.exceptions")
    m, cons = case["machine"], case["constraints"]
    machine = par.build_machine(m)
    vr = par.build_vertices(case["vertices"])
    nets = par.build_nets(case["nets"])
    constraints = par.build_constraints(cons)
    names = [v for v, _ in case["vertices"]]
    need = dict(case["vertices"])
    placer, kw = case["placer"], dict(case["kw"])
    stats = collections.Counter()
    if placer.startswith("sa-"):
        fn = imp("rig.place_and_route.place.sa").place
        if placer == "sa-py":
            k = imp("rig.place_and_route.place.sa.python_kernel").PythonKernel
        else:
            k = imp("rig.place_and_route.place.sa.c_kernel").CKernel
            if _asan.get("on"):
                ctx.hit("c_kernel_under_asan")
        stop_after = kw.get("stop_after")

        def on_temperature_change(iteration_count, placements, cost,
                                  acceptance_rate, temperature,
                                  distance_limit):
            # documented callback: the placement shown to the user at every
            # temperature step must itself be complete and feasible
            stats["temperature_steps"] += 1
            ctx.hit("temperature_callback_placement")
            judge_placement(placements, "%s (placement passed to "
                            "on_temperature_change #%d)" %
                            (placer, stats["temperature_steps"]))
            if stop_after and stats["temperature_steps"] >= stop_after:
                stats["stopped"] = 1
                return False
        kw = dict(effort=kw["effort"], random=hostile_random(ctx, kw["seed"]),
                  kernel=monitored(k, ctx, stats, placer),
                  on_temperature_change=on_temperature_change)
    elif placer == "rand":
        fn = imp("rig.place_and_route.place.rand").place
        kw = dict(random=hostile_random(ctx, kw["seed"]))
    else:
        fn = imp("rig.place_and_route.place." + placer).place
        kw = {k_: ([tuple(c) for c in v] if k_ == "chip_order" and v else v)
              for k_, v in kw.items()}
        form = kw.pop("order_form", "list")
        for k_ in ("vertex_order", "chip_order"):
            if kw.get(k_) is not None and form != "list":
                ctx.hit("order_given_as_" + form)
                kw[k_] = tuple(kw[k_]) if form == "tuple" else iter(kw[k_])
    what = "%s(%s)" % (placer, ", ".join(
        "%s=%r" % (k_, v) for k_, v in case["kw"].items()
        if k_ not in ("vertex_order", "chip_order")))
    easy_ok = must_succeed(case)

    def judge_placement(pl, what_):
        check(isinstance(pl, dict) and set(pl) == set(names), "vertex-set",
              "%s: placement covers %d vertices, problem has %d (missing %r, "
              "extra %r)" % (what_, len(pl), len(names),
                             sorted(set(names) - set(pl), key=repr)[:4],
                             sorted(set(pl) - set(names), key=repr)[:4]))
        live = set(par.live_chips(m))
        use = collections.defaultdict(collections.Counter)
        for v, xy in pl.items():
            check(isinstance(xy, tuple) and xy in live, "not-a-working-chip",
                  "%s: %r placed on %r" % (what_, v, xy))
            for r, q in need[v].items():
                use[xy][r] += q
        for xy, u in use.items():
            cap = par.capacity(m, cons, xy)
            for r, q in u.items():
                check(q <= cap[r], "chip-over-capacity",
                      "%s: chip %r: vertices need %d of %r, %d available after "
                      "reservations" % (what_, xy, q, r, cap[r]),
                      on_chip=[v for v in pl if pl[v] == xy][:8])
        for c in cons:
            if c[0] == "loc":
                check(pl[c[1]] == tuple(c[2]), "location-ignored",
                      "%s: %r constrained to %r, placed on %r" %
                      (what_, c[1], c[2], pl[c[1]]))
        for g in groups_of(names, cons):
            check(len({pl[v] for v in g}) == 1, "same-chip-ignored",
                  "%s: group %r placed on %r" % (what_, g,
                                                sorted({pl[v] for v in g})))

    try:
        pl = fn(vr, nets, machine, constraints, **kw)
    except (exc.InsufficientResourceError, exc.InvalidConstraintError) as e:
        ctx.hit("documented_error")
        check(not easy_ok, "failed-on-easy-problem",
              "%s raised %s (%s) on a problem of the success class" %
              (what, type(e).__name__, e))
        raise Rejected(type(e).__name__)
    except Violation:
        raise
    except OverflowError as e:
        biggest = max([0] + [q for _, r in case["vertices"]
                             for q in r.values()] +
                      list(m["res"].values()) +
                      [q for r in m["exc"].values() for q in r.values()])
        if case["placer"] == "sa-c" and biggest >= 1 << 29:
            # listed finding: the C kernel's 32-bit quantities
            ctx.finding("unexpected-exception", KF_CK32,
                        "%s: OverflowError: %s (largest quantity %d)" %
                        (what, e, biggest))
            return
        raise Violation("unexpected-exception", "%s: OverflowError: %s" %
                        (what, e))
    except Exception as e:
        raise Violation("unexpected-exception", "%s: %s: %s" %
                        (what, type(e).__name__, e))
    if easy_ok:
        ctx.hit("easy_must_succeed")
    ctx.hit("feasibility_checked")
    judge_placement(pl, what)
    if stats.get("stopped"):
        ctx.hit("stopped_by_callback")
    live = set(par.live_chips(m))
    if (len(names) >= 3 and len(live) >= 2 and
            (cons or m.get("exc"))):
        ctx.mark_nontrivial()
    ctx.seen("placer_x_class", placer)
    ctx.note(dict(placer=what, run_steps=stats["run_steps"],
                  vertices=len(names), chips=len(live)))
    return "ok"
