"""C03 - routing trees are loop-free, connected, use only live hardware.

Oracle: an independent tree walker + live-link model + strong-connectivity
computation, all from the literal case description."""
import importlib
import contextlib
import random

from . import c11
from ..core import check, Violation, Rejected
from ..gen import par

ID = "C03"
IMPORTS = ['rig.place_and_route.route.ner']
LEVEL = "exploration"
TECHNIQUE = ("runtime post-condition monitor: independent tree validator and "
             "strong-connectivity oracle over generated fault maps; "
             "sys.monitoring reachability of the detour/re-parenting branches")
LEVEL_TEXT = ("The real router is run on generated nets over machines with "
              "sparse, dense, wall-shaped and one-way link faults, dead chips, "
              "meshes and 1xN/2xN tori, several radii and tie-break seeds; "
              "every returned tree is walked by an independent validator "
              "(root, no chip twice, each hop a live link between live "
              "adjacent chips modulo the dimensions, exact leaf sets) and the "
              "router's success/failure is compared with the oracle's strong "
              "connectivity verdict.  Randomised exploration aimed at the "
              "repair path (A* detours, re-parenting)."
              ' A fifth of the cases route with every tie-break draw at the lowest or highest value its primitive can return; constraints may be instances of application-derived classes.')
LEVEL_NOTE = ("Trusted: the harness's machine model (a hop needs a live "
              "source chip, a link not listed dead in that direction, a live "
              "destination chip) and its reachability computation.")
RULE = ("one case = one faulty machine with 1-3 nets; non-trivial = the "
        "router's repair step (avoid_dead_links) ran for at least one net "
        "with >= 2 distinct sink chips; distinct by case")
ASSUMPTIONS = [
    "vertices are placed on live chips; core allocations lie in 0..17",
    "a sink listed several times may repeat its own leaves (leaf sets, not "
    "multisets, are compared)",
    "a sink allocated an empty core range expects no leaf",
]
FLOORS = {"extreme_tie_breaks": 2000, "own_core_resource": 500, "tree_validated": 500, "hop_checked": 5000,
          "repair_invoked": 100, "must_succeed": 200,
          "avoid_dead_links:reparent": 5, "leaf_checked": 2000}
SHARDS = {"quick": 16, "thorough": 64}
ANCHORS = [
    ("rig.place_and_route.route.ner", "avoid_dead_links",
     {"reparent": "new_node = lookup[(x, y)]",
      "new_ground": "new_node = RoutingTree((x, y))"}),
    ("rig.place_and_route.route.ner", "ner_net",
     {"ldf_truncated": "ldf = ldf[i + 1:]",
      "hexagon_scan": "for x, y in concentric_hexagons:"}),
    ("rig.place_and_route.route.ner", "copy_and_disconnect_tree",
     {"dead_chip_dropped": "new_node = new_parent",
      "broken_link": "broken_links.add((new_parent.chip, new_node.chip))"}),
]


def plan(tier):
    n = 2000 if tier == "quick" else 80000
    return [(c, n) for c in par.FAULT_CLASSES] + \
        [("dense", 4 * n), ("fanout", n), ("skinny", 2 * n),
         ("long", n // 25), ("bigtree", n // 4), ("shattered", n), ("corridor", 3 * n)]


def gen_long(rng):
    """machines on which a route is hundreds of hops long: long thin tori and
    meshes, a few broken links on the way"""
    n = rng.choice([120, 200, 240, 256, rng.randint(100, 400)])
    k = rng.choice([1, 2, 3])
    w, h = rng.choice([(n, k), (k, n)])
    dead = set()
    if rng.random() < .5:
        dead.update(par.wrap_links(w, h))           # a mesh
    for _ in range(rng.randint(0, 4)):
        x, y, l = rng.randrange(w), rng.randrange(h), rng.randrange(6)
        dead.add((x, y, l))
        if rng.random() < .8:
            nx, ny = par.neighbour(w, h, x, y, l)
            dead.add((nx, ny, (l + 3) % 6))
    return dict(w=w, h=h, dead_chips=[], dead_links=sorted(dead))


def gen_skinny(rng, side):
    """1xN / 2xN tori, where pairs of chips are joined by parallel links:
    one-way breaks of ALL links of a pair (the ring still closes the other
    way round) together with breaks of only one of the parallel links"""
    n = rng.randint(5, max(6, side))
    two = rng.random() < .4
    flip = rng.random() < .5
    dead = set()

    def put(x, y, l):
        # (x, y, l) given for an array 1 or 2 wide and n tall
        if flip:
            # mirror in the diagonal: E<->N, W<->S, NE and SW stay
            x, y, l = y, x, {0: 2, 2: 0, 3: 5, 5: 3, 1: 1, 4: 4}[l]
        dead.add((x, y, l))
    ring_fwd, ring_back = (2, 1), (5, 4)        # parallel pairs along y
    for _ in range(rng.randint(1, 2)):
        y = rng.randrange(n)
        for x in range(2 if two else 1):
            if two:
                # in a 2xN torus N is single but NE of one column and N of
                # the other arrive at the same chip; break every way up
                put(x, y, 2)
                put(x, y, 1)
            else:
                for l in ring_fwd:
                    put(x, y, l)
    for _ in range(rng.randint(1, 4)):
        y = rng.randrange(n)
        x = rng.randrange(2 if two else 1)
        put(x, y, rng.choice(ring_fwd + ring_back + ((0, 3) if two else ())))
    if two and rng.random() < .5:
        y = rng.randrange(n)
        put(0, y, 0)
        put(0, y, 3)                # both parallel links across, one way
    w, h = (2 if two else 1), n
    if flip:
        w, h = h, w
    return dict(w=w, h=h, dead_chips=[], dead_links=sorted(dead))


def gen_corridor(rng):
    """A net running straight along one axis whose direct path is broken in
    several places (often in the forward direction only), while many chips
    of the path are walled off sideways: every repair has to leave the path
    through one of a few gates and comes back over stretches that earlier
    repairs re-attached.  -> (machine, path chips)"""
    w, h = rng.randint(8, 18), rng.randint(8, 18)
    d = rng.randrange(6)
    dx, dy = par.VEC[d]
    n = rng.randint(5, min(w, h) - 1)
    sx, sy = rng.randrange(w), rng.randrange(h)
    path = [((sx + i * dx) % w, (sy + i * dy) % h) for i in range(n + 1)]
    dead = set()

    def kill(x, y, l, both):
        dead.add((x, y, l))
        if both:
            nx, ny = par.neighbour(w, h, x, y, l)
            dead.add((nx, ny, (l + 3) % 6))
    # a contiguous stretch of the path is walled off sideways - against
    # entering, against leaving, or both - so that it can only be reached
    # along the axis; breaks before, inside and at the end of it
    a = rng.randint(0, max(0, n - 4))
    b = min(n, a + rng.randint(3, 8))
    mode = rng.choice(["in", "in", "out", "both"])
    for x, y in path[a + 1:b]:
        for l in range(6):
            if l in (d, (d + 3) % 6) or rng.random() < .1:
                continue
            nx, ny = par.neighbour(w, h, x, y, l)
            if mode in ("out", "both"):
                dead.add((x, y, l))
            if mode in ("in", "both"):
                dead.add((nx, ny, (l + 3) % 6))
    breaks = {a, rng.randint(a, b - 1), b - 1}
    for _ in range(rng.randint(0, 2)):
        breaks.add(rng.randrange(n))
    for i in breaks:
        if i < n:
            kill(path[i][0], path[i][1], d, rng.random() < .25)
    for _ in range(rng.choice([0, 0, rng.randint(0, w * h // 6)])):
        kill(rng.randrange(w), rng.randrange(h), rng.randrange(6),
             rng.random() < .7)
    if rng.random() < .3:
        dead |= set(par.wrap_links(w, h))
    return dict(w=w, h=h, dead_chips=[], dead_links=sorted(dead)), path


def gen(cls, idx, rng, tier):
    side = 12 if tier == "quick" else 16
    if cls == "corridor":
        m, path = gen_corridor(rng)
        place = [("src", path[0])]
        for i in range(rng.randint(1, 4)):
            place.append(("t%d" % i, path[-1] if i == 0 else
                          rng.choice(path[2:])))
        chips = par.live_chips(m)
        for i in range(rng.randint(0, 3)):
            place.append(("o%d" % i, rng.choice(chips)))
        allocs = {v: (1 + i % 16, 2 + i % 16)
                  for i, (v, _) in enumerate(place)}
        nets = [("src", [v for v, _ in place[1:]], 1.0)]
        if rng.random() < .3:
            nets.append((place[-1][0], ["src", place[1][0]], 1.0))
        return dict(machine=m, place=place, allocs=allocs, endpoints=[],
                    nets=nets, radius=rng.choice([20, 20, 0, 1, 3]),
                    tie=rng.randrange(1 << 30))
    if cls == "fanout":
        m = par.gen_faults(rng, rng.choice(["sparse", "dense", "none"]), side)
    elif cls == "skinny":
        m = gen_skinny(rng, side)
    elif cls == "long":
        m = gen_long(rng)
    elif cls == "shattered":
        # a third to a half of all links broken (mostly in both directions)
        # on machines large enough for branches that meet several breaks in
        # a row: repairs of one tree cross each other and re-attach parts
        # that were themselves re-attached before
        w, h = rng.randint(8, 20), rng.randint(8, 20)
        frac = rng.uniform(0.28, 0.5)
        dead = set(par.wrap_links(w, h)) if rng.random() < .3 else set()
        for _ in range(int(w * h * 6 * frac / 2)):
            x, y, l = rng.randrange(w), rng.randrange(h), rng.randrange(6)
            dead.add((x, y, l))
            if rng.random() < .9:
                nx, ny = par.neighbour(w, h, x, y, l)
                dead.add((nx, ny, (l + 3) % 6))
        m = dict(w=w, h=h, dead_chips=[], dead_links=sorted(dead))
    elif cls == "bigtree":
        # trees of hundreds of nodes grown with a small search radius: the
        # router changes its neighbour-search strategy on the way, and late
        # sinks lie far from everything connected so far
        if rng.random() < .5:
            w, h = rng.choice([(rng.randint(60, 130), rng.randint(3, 6)),
                               (rng.randint(3, 6), rng.randint(60, 130))])
        else:
            w, h = rng.randint(16, 28), rng.randint(16, 28)
        dead = set(par.wrap_links(w, h)) if rng.random() < .6 else set()
        for _ in range(rng.randint(0, 6)):
            dead.add((rng.randrange(w), rng.randrange(h), rng.randrange(6)))
        if rng.random() < .5:
            # a worn machine: 3-12% of the links broken (mostly both ways),
            # so that a tree of hundreds of chips needs many repairs at once
            for _ in range(int(w * h * 3 * rng.uniform(.03, .12))):
                x, y, l = rng.randrange(w), rng.randrange(h), rng.randrange(6)
                dead.add((x, y, l))
                if rng.random() < .8:
                    nx, ny = par.neighbour(w, h, x, y, l)
                    dead.add((nx, ny, (l + 3) % 6))
        m = dict(w=w, h=h, dead_chips=[], dead_links=sorted(dead))
    else:
        m = par.gen_faults(rng, cls, side)
    chips = par.live_chips(m)
    nv = rng.randint(1, 30) if cls != "bigtree" else rng.randint(30, 70)
    place = [(("v%d" % i) if (i + nv) % 5 else ("pop", i), rng.choice(chips))
             for i in range(nv)]
    allocs, endpoints = {}, []
    for v, xy in place:
        k = rng.random()
        if k < .6:
            a = rng.randrange(18)
            allocs[v] = (a, min(18, a + rng.choice([1, 1, 1, 2, 3, 0])))
        elif k < .7:
            endpoints.append(("endpoint", v, rng.randrange(6)))
            if rng.random() < .4:
                # a device vertex that was also given (possibly zero) cores:
                # the endpoint constraint still decides where packets go
                a = rng.randrange(18)
                allocs[v] = (a, min(18, a + rng.choice([0, 1, 2])))
    nets = []
    for _ in range(rng.randint(1, 3)):
        fan = rng.randint(1, 8) if cls != "fanout" else rng.randint(10, 60)
        if cls == "skinny":
            fan = rng.randint(4, 20)
        if cls == "bigtree":
            fan = rng.randint(25, 60)
        if cls == "shattered":
            fan = rng.randint(6, 30)
        sinks = [rng.choice(place)[0] for _ in range(fan)]
        if rng.random() < .3:
            sinks.append(sinks[0])          # duplicated sink
        src = rng.choice(place)[0]
        if rng.random() < .3:
            sinks.append(src)               # self loop / sink on source chip
        nets.append((src, sinks, rng.choice([1.0, 0, 2])))
    return dict(machine=m, place=place, allocs=allocs, endpoints=endpoints,
                nets=nets, radius=rng.choice([0, 1, 2, 20, 20, 3, 5]
                                             if cls != "bigtree" else
                                             [3, 3, 4, 5]),
                tie=rng.randrange(1 << 30))


def validate_tree(ctx, root, m, net, place, allocs, endpoints, RoutingTree,
                  Routes):
    """Walk the tree; raises Violation.  -> set of chips visited"""
    w, h = m["w"], m["h"]
    dead = {tuple(c) for c in m["dead_chips"]}
    dl = {tuple(l) for l in m["dead_links"]}
    src, sinks, _ = net
    where = dict(net=(src, sinks))
    check(isinstance(root, RoutingTree), "not-a-tree", repr(root), **where)
    check(tuple(root.chip) == place[src], "root-not-at-source",
          "root at %r, source placed at %r" % (root.chip, place[src]), **where)
    nodes = {}
    seen_obj = set()
    leaves = {}
    stack = [root]
    while stack:
        n = stack.pop()
        check(id(n) not in seen_obj, "node-shared",
              "tree node %r reachable twice" % (n.chip,), **where)
        seen_obj.add(id(n))
        chip = tuple(n.chip)
        check(chip not in nodes, "chip-twice",
              "chip %r appears in two tree nodes" % (chip,), **where)
        nodes[chip] = n
        check(0 <= chip[0] < w and 0 <= chip[1] < h and chip not in dead,
              "dead-or-missing-chip", repr(chip), **where)
        for r, c in n.children:
            if isinstance(c, RoutingTree):
                ctx.hit("hop_checked")
                check(r is not None and 0 <= int(r) < 6, "hop-not-a-link",
                      "%r -> %r via %r" % (chip, c.chip, r), **where)
                l = int(r)
                want = par.neighbour(w, h, chip[0], chip[1], l)
                check(tuple(c.chip) == want, "hop-not-adjacent",
                      "from %r link %d leads to %r, child is at %r" %
                      (chip, l, want, c.chip), **where)
                check((chip[0], chip[1], l) not in dl, "hop-over-dead-link",
                      "link %d of %r is dead" % (l, chip), **where)
                check(want not in dead, "hop-into-dead-chip", repr(want),
                      **where)
                stack.append(c)
            else:
                leaves.setdefault(chip, set()).add(
                    (None if r is None else int(r), c))
    # expected leaves
    ep = {c[1]: c[2] for c in endpoints}
    exp = {}
    for s in sinks:
        chip = place[s]
        if s in ep:
            ls = {(ep[s], s)}
        elif s in allocs:
            a, b = allocs[s]
            ls = {(6 + c, s) for c in range(a, b)}
        else:
            ls = {(None, s)}
        exp.setdefault(chip, set()).update(ls)
        if ls:
            check(chip in nodes, "sink-chip-not-in-tree",
                  "sink %r placed on %r" % (s, chip), **where)
    for chip in set(exp) | set(leaves):
        ctx.hit("leaf_checked")
        got, want = leaves.get(chip, set()), exp.get(chip, set())
        check(got == want, "leaves-differ",
              "chip %r: leaves %r, expected %r" %
              (chip, sorted(got, key=repr), sorted(want, key=repr)), **where)
    return nodes


def run(case, ctx):
    ner = importlib.import_module("rig.place_and_route.route.ner")
    rt = importlib.import_module("rig.place_and_route.routing_tree")
    exc = importlib.import_module("rig.place_and_route.exceptions")
    from rig.routing_table import Routes
    par_mod = par.rig_par()
    m = dict(case["machine"])
    m.setdefault("res", {"Cores": 18})
    machine = par.build_machine(m)
    place = {v: tuple(xy) for v, xy in case["place"]}
    allocs = {v: tuple(ab) for v, ab in case["allocs"].items()}
    nets = par.build_nets(case["nets"])
    constraints = par.build_constraints(case["endpoints"])
    # which resource stands for cores is the caller's choice; a quarter of
    # the cases name their own (and carry a decoy under the default name)
    form = case["tie"] % 8
    core_res = par_mod.Cores
    if form in (1, 5):
        core_res = "processors" if form == 1 else ("res", "cpu")
        ctx.hit("own_core_resource")
        allocations = {v: {core_res: slice(a, b),
                           par_mod.Cores: slice((a + 5) % 17, (a + 5) % 17 + 1),
                           par_mod.SDRAM: slice(a, a + 100)}
                       for v, (a, b) in allocs.items()}
        # vertices that own none of the caller's core resource (devices)
        # may still hold something under the default name: it is not what
        # the caller said cores are
        for k_, v in enumerate(sorted(place, key=repr)):
            if v not in allocations and k_ % 2 == 0:
                allocations[v] = {par_mod.Cores: slice(k_ % 16, k_ % 16 + 1),
                                  par_mod.SDRAM: slice(0, 4)}
                ctx.hit("only_default_name_allocated")
    else:
        allocations = {v: {par_mod.Cores: slice(a, b)}
                       for v, (a, b) in allocs.items()}
    if form == 2:
        for r in allocations.values():
            r[par_mod.SDRAM] = slice(0, 8)
    vr = {v: ({par_mod.Cores: allocs[v][1] - allocs[v][0]}
              if v in allocs else {}) for v in place}
    sc = par.strongly_connected(m)
    # observe whether the repair step ran, per net (rebinding the module
    # attribute: route() looks it up at call time)
    repaired = []
    orig = ner.avoid_dead_links

    def spy(root, machine_, wrap_around=False):
        repaired.append(1)
        return orig(root, machine_, wrap_around)
    nt = False
    ner.avoid_dead_links = spy
    try:
        for i, net in enumerate(nets):
            random.seed(case["tie"] + i)
            del repaired[:]
            xr = contextlib.nullcontext()
            if (case["tie"] >> 3) % 5 == 0:
                # "all outcomes of the tie-breaks": every draw at the lowest
                # or highest value its primitive can return
                import rig.geometry as g_
                ru_ = importlib.import_module(
                    "rig.place_and_route.route.utils")
                xr = c11.extreme_tie_breaks(case["tie"] * 31 + i, g_, ru_)
                ctx.hit("extreme_tie_breaks")
            try:
              with xr:
                  if form in (3, 7) and case["radius"] == 20 and \
                          core_res is par_mod.Cores:
                      # defaults left out
                      routes = ner.route(vr, [net], machine, constraints,
                                         place, allocations)
                  elif form in (4, 5):
                      routes = ner.route(
                          vertices_resources=vr, nets=[net], machine=machine,
                          constraints=constraints, placements=place,
                          allocations=allocations, core_resource=core_res,
                          radius=case["radius"])
                  elif form == 6:
                      routes = ner.route(vr, [net], machine, constraints, place,
                                         allocations, core_res, case["radius"])
                  else:
                      routes = ner.route(vr, [net], machine, constraints, place,
                                         allocations, core_res,
                                         radius=case["radius"])
            except exc.MachineHasDisconnectedSubregion as e:
                check(not sc, "failed-on-connected-machine",
                      "MachineHasDisconnectedSubregion (%s) although every "
                      "live chip can reach every other over live links" % e,
                      net=case["nets"][i])
                ctx.hit("documented_failure")
                continue
            except Violation:
                raise
            except Exception as e:
                raise Violation("unexpected-exception", "%s: %s" %
                                (type(e).__name__, e), net=case["nets"][i])
            if sc:
                ctx.hit("must_succeed")
            check(list(routes) == [net], "routes-keys", repr(list(routes)))
            nodes = validate_tree(ctx, routes[net], m, case["nets"][i], place,
                                  allocs, case["endpoints"], rt.RoutingTree,
                                  Routes)
            ctx.hit("tree_validated")
            if repaired:
                ctx.hit("repair_invoked")
                if len({place[s] for s in case["nets"][i][1]}) >= 2:
                    nt = True
    finally:
        ner.avoid_dead_links = orig
    if nt:
        ctx.mark_nontrivial()
    ctx.note(dict(strongly_connected=sc, chips=len(par.live_chips(m)),
                  dead_links=len(m["dead_links"])))
    return "ok"
