"""C05 - allocated resource ranges are exact, in range, disjoint, unreserved.

Oracle: interval arithmetic recomputed from the inputs alone."""
import importlib

from ..core import check, Violation, Rejected
from ..gen import par

ID = "C05"
IMPORTS = ['rig.place_and_route.allocate.greedy']
LEVEL = "exploration"
TECHNIQUE = ("runtime post-condition monitor: interval checks (size, "
             "containment, alignment, disjointness, reservation avoidance) "
             "recomputed from the inputs; success-obligation oracle")
LEVEL_TEXT = ("Feasible placements are built by construction (demand <= "
              "capacity minus reservations on every chip), allocated by the "
              "real allocator under shuffled vertex orders, zero-size "
              "requests, adjacent/interleaved reserved ranges in random list "
              "order, alignments and per-chip exceptions; every returned "
              "slice is checked and success is demanded whenever the "
              "documented sufficient condition holds.  Randomised "
              "exploration: the input space is unbounded, failure modes are "
              "boundary interactions the generators aim at."
              ' Also machines of hundreds of chips with vertex-major placements, and capacities written as floats.')
LEVEL_NOTE = ("Trusted: the harness's interval arithmetic and its per-chip "
              "'reservations only at the ends' predicate.")
RULE = ("one case = machine + vertices + feasible placement + reservation/"
        "alignment constraints; non-trivial = some chip hosts >= 2 vertices "
        "with non-empty requests for the same resource and at least one "
        "reservation or alignment applies to that chip; distinct by case")
ASSUMPTIONS = [
    "placements are feasible: per chip, total demand <= resource - reserved",
    "reservations are pairwise disjoint and inside the range of every chip "
    "they apply to (constraints.py: anything else is undefined behaviour)",
    "an empty range overlaps nothing and is not required to be aligned",
    "'reservations only at the ends' is judged per chip over global and "
    "local reservations together",
    "at most one alignment constraint per resource; resources of vertices "
    "are resources of the machine",
]
FLOORS = {"range_checked": 3000, "must_succeed": 200,
          "reservation_avoided": 500, "aligned_start": 200,
          "documented_failure": 5}
ANCHORS = [("rig.place_and_route.allocate.greedy", "allocate",
            {"global_reservation_skipped":
                 ("resource_pointers[resource] = reservation.stop", 0),
             "local_reservation_skipped":
                 ("resource_pointers[resource] = reservation.stop", 1),
             "over_allocated": "raise InsufficientResourceError("})]
SHARDS = {"quick": 16, "thorough": 64}
CLASSES = ["ends", "interleaved", "aligned", "zero", "tight", "exceptions"]


def plan(tier):
    n = 2500 if tier == "quick" else 400000
    return [(c, n) for c in CLASSES] + \
        [("many", 32 if tier == "quick" else 600),
         ("wide", 48 if tier == "quick" else 1500)]


def gen_many(rng):
    """hundreds to thousands of small adjacent reservations at the ends of
    one resource (a heap cut up by earlier tenants), vertices filling what is
    left"""
    w = rng.choice([1, 2])
    n_res = rng.choice([300, 999, 1000, 1001, 1500, 2500])
    unit = rng.choice([1, 16])
    free = unit * rng.randint(1, 40)
    n_end = rng.choice([0, 0, n_res // 2, n_res])
    size = unit * (n_res + n_end) + free
    m = dict(w=w, h=1, res={"Cores": 18, "SDRAM": size}, exc={},
             dead_chips=[], dead_links=[])
    cons = [("reserve", "SDRAM", i * unit, (i + 1) * unit, None)
            for i in range(n_res)]
    loc_end = rng.choice([None, (0, 0)])
    cons += [("reserve", "SDRAM", size - (i + 1) * unit, size - i * unit,
              loc_end) for i in range(n_end)]
    if rng.random() < .5:
        rng.shuffle(cons)
    vertices, placements = [], []
    vid = 0
    for x in range(w):
        left = free + (unit * n_end if loc_end is not None and x != 0 else 0)
        while left > 0 and len(vertices) < 40 * (x + 1):
            q = min(left, unit * rng.randint(1, 8))
            if rng.random() < .2:
                q = left
            vertices.append((vid, {"SDRAM": q, "Cores": rng.choice([0, 0, 1])
                                   if vid % 18 else 0}))
            placements.append((vid, (x, 0)))
            vid += 1
            left -= q
    return dict(machine=m, vertices=vertices, nets=[], constraints=cons,
                placements=placements)


def gen_wide(rng):
    """hundreds of chips each holding a few vertices, the placement listed
    vertex-major (population by population), so that every chip is come back
    to after all the others"""
    w, h = rng.choice([(12, 12), (12, 12), (24, 12), (16, 9), (40, 4),
                       (24, 24), (129, 1), (13, 10)])
    cores, sdram = rng.choice([3, 4, 18]), rng.choice([64, 100, 1000])
    m = dict(w=w, h=h, res={"Cores": cores, "SDRAM": sdram}, exc={},
             dead_chips=[], dead_links=[])
    chips = [(x, y) for x in range(w) for y in range(h)]
    for xy in rng.sample(chips, rng.randint(0, 5)):
        m["dead_chips"].append(xy)
    live = [c for c in chips if c not in set(m["dead_chips"])]
    for xy in rng.sample(live, rng.randint(0, 6)):
        m["exc"][xy] = {"Cores": rng.randint(1, cores), "SDRAM": sdram}
    cons = []
    if rng.random() < .5:
        cons.append(("reserve", "Cores", 0, 1, None))
    if rng.random() < .3:
        cons.append(("reserve", "SDRAM", sdram - 8, sdram, None))
    if rng.random() < .3:
        cons.append(("align", "SDRAM", 4))
    per = rng.randint(2, 3)
    vertices, placements = [], []
    for k in range(per):
        for xy in live:
            if rng.random() < .05:
                continue
            cap = par.capacity(m, cons, xy)
            q = dict(Cores=1 if cap["Cores"] >= per else 0,
                     SDRAM=rng.choice([0, 4, 8, 12]))
            v = ("pop%d" % k, xy[0], xy[1])
            vertices.append((v, q))
            placements.append((v, xy))
    if rng.random() < .3:
        rng.shuffle(placements)
    return dict(machine=m, vertices=vertices, nets=[], constraints=cons,
                placements=placements)


def gen(cls, idx, rng, tier):
    if cls == "many":
        return gen_many(rng)
    if cls == "wide":
        return gen_wide(rng)
    m = par.gen_machine(rng, max_w=4, max_h=4,
                        p_exc=0.9 if cls == "exceptions" else 0.3,
                        res=dict({"Cores": rng.choice([1, 4, 18]),
                                  "SDRAM": rng.choice([0, 10, 64, 100]),
                                  "SRAM": rng.choice([5, 16])},
                                 # a resource of the user's own, named by
                                 # value (par.res_obj hands every use site
                                 # its own equal key object)
                                 **({"bank-%d" % rng.randrange(3):
                                     rng.choice([8, 32, 100])}
                                    if rng.random() < .4 else {})))
    ends_only = cls in ("ends", "tight", "zero") or (
        cls == "exceptions" and rng.random() < .5)
    cons = par.gen_reservations(rng, m, n_max=6 if cls == "interleaved" else 3,
                                ends_only=ends_only)
    if cls == "aligned" or (cls == "interleaved" and rng.random() < .3):
        for name in m["res"]:
            if rng.random() < .7:
                cons.append(("align", name, rng.choice([1, 2, 4, 8, 3])))
    chips = par.live_chips(m)
    vertices, placements = [], []
    vid = 0
    for xy in chips:
        if rng.random() < .25:
            continue
        cap = par.capacity(m, cons, xy)
        left = dict(cap)
        for _ in range(rng.randint(1, 6)):
            r = {}
            for name in m["res"]:
                if rng.random() < .2:
                    continue
                hi = max(0, left[name])
                if cls == "zero" and rng.random() < .5:
                    q = 0
                elif cls == "tight" and rng.random() < .5:
                    q = hi
                else:
                    q = rng.randint(0, max(0, min(hi, max(1, hi // 2))))
                r[name] = q
                left[name] -= q
            if cls == "zero" and rng.random() < .2:
                for name in r:
                    left[name] += r[name]
                r = {}
            v = vid if rng.random() < .7 else rng.choice(
                ["v%d" % vid, ("pop", vid), (vid,), ("a", "b", vid)])
            vid += 1
            vertices.append((v, r))
            placements.append((v, xy))
    rng.shuffle(vertices)
    rng.shuffle(placements)
    nets = []
    if vertices:
        for _ in range(rng.randint(0, 3)):
            nets.append((rng.choice(vertices)[0],
                         [rng.choice(vertices)[0]], 1.0))
    if rng.random() < .3:
        # reservations of nothing ("null constraints"): anywhere, also inside
        # or at the edge of a real reservation, in any position of the list
        for _ in range(rng.randint(1, 3)):
            name = rng.choice(sorted(m["res"]))
            at = rng.randint(0, m["res"][name])
            real = [c for c in cons if c[0] == "reserve" and c[1] == name]
            if real and rng.random() < .6:
                c = rng.choice(real)
                at = rng.choice([c[2], c[3], (c[2] + c[3]) // 2,
                                 max(c[2], c[3] - 1)])
            loc = rng.choice([None, rng.choice(chips)]) if chips else None
            cons.insert(rng.randrange(len(cons) + 1),
                        ("reserve", name, at, at, loc))
    if rng.random() < .12:
        # the same problem in much larger units (a 64-bit address space):
        # every quantity of one resource is multiplied by a number that a
        # double cannot hold
        name = rng.choice(sorted(m["res"]))
        k = rng.choice([(1 << 54) + 1, (1 << 60) + 3, (1 << 53) + 1,
                        10 ** 17 + 7])
        m["res"][name] *= k
        for xy in m["exc"]:
            if name in m["exc"][xy]:
                m["exc"][xy][name] *= k
        vertices = [(v, {n: q * k if n == name else q for n, q in r.items()})
                    for v, r in vertices]
        cons = [(c[0], c[1], c[2] * k, c[3] * k, c[4])
                if c[0] == "reserve" and c[1] == name else
                (c[0], c[1], c[2] * k) if c[0] == "align" and c[1] == name
                else c for c in cons]
    elif rng.random() < .1:
        # "a positive numerical value": a capacity written as a float
        # (128e6 bytes); requests and reservations stay whole numbers
        name = rng.choice(sorted(m["res"]))
        m["res"][name] = float(m["res"][name])
        for xy in m["exc"]:
            if name in m["exc"][xy] and rng.random() < .5:
                m["exc"][xy][name] = float(m["exc"][xy][name])
        m["float_capacity"] = name
    return dict(machine=m, vertices=vertices, nets=nets, constraints=cons,
                placements=placements)


def at_ends(res_list, cap):
    """do the reserved ranges form a prefix block and/or a suffix block?"""
    iv = sorted(res_list)
    pre = 0
    rest = list(iv)
    while rest and rest[0][0] == pre:
        pre = rest.pop(0)[1]
    suf = cap
    while rest and rest[-1][1] == suf:
        suf = rest.pop()[0]
    return not rest


def run(case, ctx):
    greedy = importlib.import_module("rig.place_and_route.allocate.greedy")
    exc = importlib.import_module("rig.place_and_route.exceptions")
    m, cons = case["machine"], case["constraints"]
    machine = par.build_machine(m)
    vr = par.build_vertices(case["vertices"])
    nets = par.build_nets(case["nets"])
    constraints = par.build_constraints(cons)
    placements = {v: tuple(xy) for v, xy in case["placements"]}
    need = dict(case["vertices"])
    aligns = {c[1]: c[2] for c in cons if c[0] == "align"}
    by_chip = {}
    for v, xy in placements.items():
        by_chip.setdefault(xy, []).append(v)
    # --- oracle-side facts
    must_succeed = not aligns
    interesting = False
    for xy, vs in by_chip.items():
        cap = par.chip_res(m, xy)
        for name in cap:
            resv = par.reservations_for(cons, xy, name)
            demand = sum(need[v].get(name, 0) for v in vs)
            free = cap[name] - sum(b - a for a, b in resv)
            assert demand <= free, "generator produced infeasible placement"
            if not at_ends(resv, cap[name]):
                must_succeed = False
            if (sum(1 for v in vs if need[v].get(name, 0) > 0) >= 2 and
                    (resv or name in aligns)):
                interesting = True
    pristine = par.build_machine(m)
    pl_before = dict(placements)

    def untouched():
        # the machine (and the placement) are the caller's: the next call
        # with the same objects sees what they describe, not what this call
        # made of them
        # (compared attribute by attribute: Machine.__eq__ itself raises
        # IndexError for a machine that lists a resource exception for a
        # dead chip)
        now = [(machine.width, machine.height),
               dict(machine.chip_resources),
               {k: dict(v) for k, v in
                machine.chip_resource_exceptions.items()},
               set(machine.dead_chips), set(machine.dead_links)]
        was = [(pristine.width, pristine.height),
               dict(pristine.chip_resources),
               {k: dict(v) for k, v in
                pristine.chip_resource_exceptions.items()},
               set(pristine.dead_chips), set(pristine.dead_links)]
        check(now == was, "argument-modified", "allocate() changed the "
              "Machine it was given: %r, was %r" % (now[1:3], was[1:3]))
        check(placements == pl_before, "argument-modified",
              "allocate() changed the placements it was given")
    try:
        alloc = greedy.allocate(vr, nets, machine, constraints, placements)
    except exc.InsufficientResourceError as e:
        untouched()
        ctx.hit("documented_failure")
        check(not must_succeed, "failed-on-feasible-placement",
              "InsufficientResourceError (%s) although no alignment is "
              "requested and every chip's reservations are at the ends of "
              "its range" % e)
        raise Rejected("InsufficientResourceError")
    except Exception as e:
        raise Violation("unexpected-exception", "%s: %s" %
                        (type(e).__name__, e))
    untouched()
    if must_succeed:
        ctx.hit("must_succeed")
    check(set(alloc) == set(placements), "vertex-set",
          "allocated %d vertices, placed %d" % (len(alloc), len(placements)))
    per = {}
    for v, a in alloc.items():
        xy = placements[v]
        cap = par.chip_res(m, xy)
        check(set(a) == {par.res_obj(k) for k in need[v]}, "resource-set",
              "vertex %r: allocated %r, needs %r" % (v, list(a), need[v]))
        for name, q in need[v].items():
            s = a[par.res_obj(name)]
            ctx.hit("range_checked")
            where = dict(vertex=v, chip=xy, resource=name, need=q,
                         got=(s.start, s.stop, s.step))
            check(isinstance(s, slice) and s.step in (None, 1) and
                  isinstance(s.start, int) and isinstance(s.stop, int),
                  "not-a-range", repr(s), **where)
            check(s.stop - s.start == q, "wrong-size",
                  "%r for a request of %d" % (s, q), **where)
            check(0 <= s.start and s.stop <= cap[name], "out-of-range",
                  "%r outside [0, %d)" % (s, cap[name]), **where)
            if q > 0:
                if name in aligns:
                    ctx.hit("aligned_start")
                    check(s.start % aligns[name] == 0, "misaligned",
                          "%r not aligned to %d" % (s, aligns[name]), **where)
                for ra, rb in par.reservations_for(cons, xy, name):
                    ctx.hit("reservation_avoided")
                    check(not (max(s.start, ra) < min(s.stop, rb)),
                          "overlaps-reservation", "%r overlaps reserved "
                          "[%d, %d)" % (s, ra, rb), **where)
                per.setdefault((xy, name), []).append((s.start, s.stop, v))
    for (xy, name), ivs in per.items():
        ivs.sort(key=lambda t: t[:2])
        for (a0, a1, va), (b0, b1, vb) in zip(ivs, ivs[1:]):
            check(b0 >= a1, "ranges-overlap",
                  "%r of chip %r: [%d,%d) of %r overlaps [%d,%d) of %r" %
                  (name, xy, a0, a1, va, b0, b1, vb))
    if interesting:
        ctx.mark_nontrivial()
    ctx.note(dict(vertices=len(placements), must_succeed=must_succeed,
                  alignments=aligns,
                  reservations=sum(1 for c in cons if c[0] == "reserve")))
    return "ok"
