"""C07 - remote memory reads and writes are byte-exact for any address and
length.

The real MachineController / SCPConnection run against the executable machine
model over the virtual network; the oracle keeps a shadow memory from the
API-level operations and compares (a) bytes returned, (b) the machine's write
log and memory after every call (conservation: nothing else changed on any
chip), (c) per-command protocol facts recorded by the machine (length <=
buffer, access type vs alignment, payload length)."""
import struct

from ..core import check, Violation, Rejected
from ..sim import machine as M

ID = "C07"
IMPORTS = ['rig.machine_control.machine_controller']
LEVEL = "fault_enumeration"
TECHNIQUE = ("reference-model monitor: shadow memory vs simulated machine "
             "memory/write log after every API call; protocol monitor inside "
             "the machine model; loss/duplication/delay fault schedules")
LEVEL_TEXT = ("Histories of reads, writes, fills, struct/per-core field "
              "accesses and link reads/writes with start and end at every "
              "alignment, lengths 0 to several buffers +-3, buffer sizes "
              "around powers of two and odd, windows 1-8 and several "
              "chips/cores are executed by the real controller, with and "
              "without lossy / duplicating / delaying / busy-replying network "
              "schedules; after every call the machine's memory and write log "
              "must equal the shadow exactly.")
LEVEL_NOTE = ("Trusted: the machine model (rv/sim/machine.py) and network. A "
              "retransmitted request (same connection, sequence number and "
              "bytes) is answered from a reply cache without being executed "
              "again.")
RULE = ("one case = one machine (buffer size, window) and a history of 6-20 "
        "memory operations; non-trivial = at least one operation spans more "
        "than one buffer and at least one starts or ends off word alignment; "
        "distinct by case")
ASSUMPTIONS = [
    "fill: word-aligned address and size store the 32-bit value in every "
    "word, otherwise the value is a byte (documented in fill's docstring)",
    "link reads/writes are word aligned whole words (the API rejects others)",
    "struct field addresses come from the harness's own parser of sark.struct",
    "window size is set through the controller's _window_size attribute and "
    "through SCPConnection.read/write's window_size parameter",
]
FLOORS = {"megabyte_fill": 30, "slow_host_clock": 300, "real_socket_op": 150, "op_checked": 2500, "read_bytes_compared": 500,
          "write_conservation": 800, "multi_buffer_op": 300,
          "faulty_op": 200, "struct_field": 150, "link_op": 100}
ANCHORS = [("rig.machine_control.machine_controller", "MachineController.fill",
            {"unaligned_fill_as_write": "self.write(address, data, x, y, p)",
             "aligned_fill": "SCPCommands.fill, address, data, size)"})]
SHARDS = {"quick": 16, "thorough": 64}
CLASSES = ["plain", "buffers", "faulty", "structs", "links", "windows",
           "real_udp"]
BUFS = [16, 120, 128, 242, 243, 248, 255, 256, 499, 504, 512]


def plan(tier):
    n = 600 if tier == "quick" else 30000
    # real loopback sockets cost wall-clock time per injected loss
    return [(c, n if c != "real_udp" else n // 10) for c in CLASSES] + \
        [("bigfill", 32 if tier == "quick" else 1500)]


def rdata(rng, n):
    k = rng.random()
    if k < .15 and n > 8:
        # one chunk over and over (tables, cleared or preset regions): every
        # packet's payload of a long transfer is then byte-identical
        unit = bytes(rng.getrandbits(8)
                     for _ in range(rng.choice([1, 4, 16, 64, 128, 256])))
        return (unit * (n // len(unit) + 1))[:n]
    return bytes(rng.getrandbits(8) for _ in range(n))


def gen_bigfill(rng):
    """Regions of megabytes set to one word (what clearing an allocation
    does), on controllers made with all sorts of timeouts; reads straddling
    the ends of the filled range afterwards."""
    MiB = 1 << 20
    ops = []
    for _ in range(rng.randint(1, 3)):
        n = rng.choice([MiB, 2 * MiB, 4 * MiB + 4, 8 * MiB, 16 * MiB - 4,
                        4 * rng.randint(MiB // 16, 6 * MiB),
                        4 * rng.randint(16384, MiB // 4)])
        addr = 0x60000000 + 4 * rng.randrange(1 << 18)
        val = rng.choice([0, 0xffffffff, 0xdeadbeef, rng.getrandbits(32)])
        ops.append(("fill", 0, 0, 0, addr, val, n))
        for edge in (addr - 6, addr + n - 9, addr + rng.randrange(n) & ~3):
            ops.append(("read", 0, 0, 0, edge, rng.choice([16, 40, 300]), 1))
    return dict(w=1, h=1, buf=rng.choice([256, 256, 128, 512]), window=1,
                ops=ops, faults=None, seed_mem=4 * rng.randrange(1 << 20) + 1,
                timeout=rng.choice([0.05, 0.07, 0.1, 0.3, 0.5, 1.0, 2.5,
                                    round(rng.uniform(0.02, 3.0), 3)]))


def gen(cls, idx, rng, tier):
    if cls == "bigfill":
        return gen_bigfill(rng)
    b = rng.choice(BUFS) if cls == "buffers" or rng.random() < .5 else \
        rng.choice([rng.randint(16, 600), 256])
    w, h = rng.choice([(1, 1), (2, 2), (3, 2)])
    window = rng.randint(1, 8) if cls in ("windows", "faulty") or \
        rng.random() < .4 else 1
    faults = None
    if cls == "real_udp":
        window = rng.randint(1, 8)
        faults = dict(real=True, seed=rng.randrange(1 << 30),
                      lost=rng.choice([0, .01, .03]),
                      reply_lost=rng.choice([0, .01, .03]),
                      dup=rng.choice([0, .05]), late=rng.choice([0, 0, .01]))
    if cls == "faulty" or (cls == "windows" and rng.random() < .5):
        faults = dict(p=rng.choice([.05, .15, .3]),
                      seed=rng.randrange(1 << 30))
    ops = []
    chips = [(x, y) for x in range(w) for y in range(h)]
    base = rng.choice([0x60000000, 0x70000000, 0x60100000])
    for _ in range(rng.randint(6, 20) if cls != "real_udp" else
                   rng.randint(4, 9)):
        x, y = rng.choice(chips)
        p = rng.choice([0, 0, 1, 5, 17])
        addr = base + rng.randrange(0, 3000) * rng.choice([1, 1, 4])
        k = rng.random()
        ln = rng.choice([0, 1, 2, 3, 4, 5, 7, b - 1, b, b + 1, 2 * b - 3,
                         2 * b, 2 * b + 5, 3 * b + 1, 5 * b + 3,
                         rng.randint(0, 4 * b)])
        if cls in ("plain", "buffers") and rng.random() < .02:
            # long transfers: hundreds of blocks, lengths past 16 bits
            ln = rng.choice([65535, 65536, 65537, 70001, 256 * b + 3])
        kind = rng.choice(["write", "write", "read", "read", "fill",
                           "cwrite", "cread"])
        if cls == "structs" and rng.random() < .6:
            kind = rng.choice(["wsf", "rsf", "wvf", "rvf"])
        if cls == "links" and rng.random() < .6:
            kind = rng.choice(["lwrite", "lread"])
        if kind in ("write", "cwrite"):
            ops.append((kind, x, y, p, addr, rdata(rng, ln),
                        rng.randint(1, 8)))
        elif kind in ("read", "cread"):
            ops.append((kind, x, y, p, addr, ln, rng.randint(1, 8)))
        elif kind == "fill":
            if rng.random() < .5:
                ops.append((kind, x, y, p, addr & ~3,
                            rng.choice([0, 0xdeadbeef, 0x1234,
                                        rng.getrandbits(32)]),
                            (ln + 3) & ~3))
            else:
                ops.append((kind, x, y, p, addr, rng.getrandbits(8), ln))
        elif kind in ("wsf", "rsf"):
            f = rng.choice(["p2p_addr", "led0", "unix_time", "clk_div",
                            "status_map", "v2p_map", "utmp3", "iobuf_size",
                            "time_ms", "hw_ver", "random", "cpu_clk"])
            ops.append((kind, f, x, y, p, rng.getrandbits(32)))
        elif kind in ("wvf", "rvf"):
            f = rng.choice(["r0", "r7", "psr", "lr", "rt_code", "cpu_state",
                            "app_id", "sw_count", "sw_line", "user0", "user3",
                            "iobuf", "app_name", "mbox_ap_cmd"])
            ops.append((kind, f, x, y, rng.randrange(18), rng.getrandbits(32)))
        elif kind == "lwrite":
            ops.append((kind, x, y, rng.randrange(6), addr & ~3,
                        rdata(rng, (min(ln, 3 * b) + 3) & ~3)))
        elif kind == "lread":
            ops.append((kind, x, y, rng.randrange(6), addr & ~3,
                        (min(ln, 3 * b) + 3) & ~3))
    if cls == "structs":
        # the per-core blocks may move (a chip is re-initialised)
        for _ in range(rng.randint(0, 2)):
            x, y = rng.choice(chips)
            ops.insert(rng.randrange(len(ops) + 1),
                       ("vbase", x, y, M.VCPU_BASE + 0x1000 * rng.randrange(8)
                        # (a pointer is a number: nothing says the blocks
                        # sit on a word boundary)
                        + rng.choice([0, 0, 0, 1, 2, 3, 6])))
    return dict(w=w, h=h, buf=b, window=window, faults=faults, ops=ops,
                vbases=cls == "structs" and rng.random() < .7,
                seed_mem=rng.randrange(1 << 30))


def fault_plan(f):
    import random
    rng = random.Random(f["seed"])
    p = f["p"]

    def plan(net, sock, data, n):
        if rng.random() > p:
            return [("ok", 0.0)]
        k = rng.choice(["lost", "reply_lost", "delay", "dup", "busy", "sum",
                        "reorder"])
        if k == "lost":
            return [("lost",)]
        if k == "reply_lost":
            return [("reply_lost",)]
        if k == "delay":
            return [("ok", rng.choice([0.2, 0.6, 1.3]))]
        if k == "reorder":
            return [("ok", rng.choice([0.001, 0.004, 0.01]))]
        if k == "dup":
            return [("dup", 0.0, rng.choice([0.0, 0.003, 0.7]))]
        return [("rc", 0x8d if k == "busy" else 0x82, 0.0)]
    return plan


def field_layout(struct_name, field, p=0, vbase=None):
    """(address, struct format, element count) from the harness's parser"""
    ch, off, _, count = M.structs()[struct_name]["fields"][field]
    base = M.SV_BASE if struct_name == "sv" else \
        (M.VCPU_BASE if vbase is None else vbase) + 128 * p
    return base + off, ch, count


def run(case, ctx):
    import random
    m = M.Machine(case["w"], case["h"], buffer_size=case["buf"])
    # pre-fill some memory so reads are not all zero
    rng = random.Random(case["seed_mem"])
    for c in m.chips.values():
        for base in (0x60000000, 0x70000000, 0x60100000):
            for _ in range(6):
                a = base + rng.randrange(0, 3000 * 4)
                c.wr(a, bytes(rng.getrandbits(8)
                              for _ in range(rng.randint(1, 200))), log=False)
    if case.get("vbases"):
        m.diversify(case["seed_mem"])
    real = bool(case["faults"] and case["faults"].get("real"))
    if real:
        from ..sim import realnet
        plan = True
        r = realnet.RealRig(m, faults=case["faults"],
                            seed=case["faults"]["seed"])
        ctx.hit("real_socket_case")
    else:
        plan = fault_plan(case["faults"]) if case["faults"] else None
        r = M.Rig(m, plan=plan, timeout=case.get("timeout", 0.5), n_tries=5)
        if "timeout" in case:
            ctx.hit("controller_with_own_timeout")
        if case["seed_mem"] % 3 == 0:
            # a slow host: the library's own statements take time (every
            # reading of the clock costs a fraction of a millisecond), so
            # deadlines pass BETWEEN two of its steps
            r.net.clock.tick = [3e-4, 2e-3, 1.1e-2][case["seed_mem"] % 9 // 3]
            ctx.hit("slow_host_clock")
    if not real and (case["seed_mem"] + case["buf"]) % 4 == 0:
        # the machine does not answer when the controller first talks to it;
        # the application catches the error and carries on
        user_plan = r.net.plan
        r.net.plan = lambda net, sock, data, n: [("lost",)]
        try:
            r.mc.read(0x60000000, 4, 0, 0, 0)
            raise Violation("oracle", "silent machine answered")
        except r.sc.SCPError:
            ctx.hit("first_contact_failed")
        r.net.plan = user_plan
    try:
        return run_ops(case, ctx, m, r, plan, real)
    finally:
        if real:
            r.close()
            if r.error is not None:
                raise RuntimeError("machine model failed: %r" % (r.error,))


def run_ops(case, ctx, m, r, plan, real):
    mc = r.mc
    sc = r.sc
    mc._window_size = case["window"]
    b = case["buf"]
    multi = unaligned = 0
    trace = []

    def neigh(x, y, link):
        dx, dy = [(1, 0), (1, 1), (0, 1), (-1, 0), (-1, -1), (0, -1)][link]
        return ((x + dx) % case["w"], (y + dy) % case["h"])

    for op in case["ops"]:
        kind = op[0]
        trace.append(op if len(repr(op)) < 200 else (kind,) + op[1:5])
        if kind == "vbase":
            _, x, y, nb = op
            c = m.chips[(x, y)]
            c.vcpu_base = nb
            c.poke(M.sv_field("vcpu_base")[0], "I", nb)
            m.sync_vcpu(c)
            ctx.hit("vcpu_blocks_moved")
            continue
        for c in m.chips.values():
            c.writes = []
        del m.protocol_errors[:]
        cmd_mark = len(m.cmds)
        tx0 = r.net.n_tx
        # ---- expected effect
        target = None       # (chip, addr, bytes) that must be written
        expect_read = None  # (chip, addr, n)
        compare_only = None  # leading bytes of the target that are judged
        if kind in ("write", "cwrite"):
            _, x, y, p, addr, data, win = op
            target = ((x, y), addr, data)
            if kind == "write":
                call = lambda: mc.write(addr, data, x, y, p)
            else:
                conn = mc._get_connection(x, y)
                call = lambda: conn.write(b, win, x, y, p, addr, data)
            n = len(data)
        elif kind in ("read", "cread"):
            _, x, y, p, addr, n, win = op
            expect_read = ((x, y), addr, n)
            if kind == "read":
                call = lambda: mc.read(addr, n, x, y, p)
            else:
                conn = mc._get_connection(x, y)
                call = lambda: conn.read(b, win, x, y, p, addr, n)
        elif kind == "fill":
            _, x, y, p, addr, val, n = op
            if addr % 4 == 0 and n % 4 == 0:
                data = struct.pack("<I", val) * (n // 4)
            else:
                data = bytes([val]) * n
            target = ((x, y), addr, data)
            call = lambda: mc.fill(addr, val, n, x, y, p)
        elif kind in ("wsf", "rsf"):
            _, f, x, y, p, seed = op
            addr, ch, count = field_layout("sv", f)
            fmt = "<" + ch * count
            n = struct.calcsize(fmt)
            ctx.hit("struct_field")
            if kind == "wsf":
                vals = [(seed * (i + 1) * 2654435761 >> 3) &
                        ((1 << (8 * struct.calcsize("<" + ch))) - 1)
                        for i in range(count)]
                target = ((x, y), addr, struct.pack(fmt, *vals))
                v = vals[0] if count == 1 else tuple(vals)
                call = lambda: mc.write_struct_field("sv", f, v, x, y, p)
            else:
                expect_read = ((x, y), addr, n)
                call = lambda: mc.read_struct_field("sv", f, x, y, p)
        elif kind in ("wvf", "rvf"):
            _, f, x, y, p, seed = op
            addr, ch, count = field_layout("vcpu", f, p,
                                           m.chips[(x, y)].vcpu_base)
            fmt = "<" + ch
            n = struct.calcsize(fmt)
            ctx.hit("struct_field")
            if kind == "wvf":
                if ch.endswith("s"):
                    v = ["app%d", "caf\u00e9%d", "\u00b5app%d", "a\u4e2d%d",
                         "sixteen-bytes%d", "a-long-application-name-%d",
                         "\u00dcbungs-Netzwerk-%d",
                         "d\u00e9tecteur-de-contours%d",
                         "\u4e2d\u6587\u5e94\u7528\u7a0b\u5e8f%d"][
                        (seed >> 3) % 9] % (seed % 1000)
                    packed = struct.pack(fmt, v.encode())
                    if len(v.encode()) > n:
                        # a name longer than the field: the field holds its
                        # leading bytes (at least every whole character
                        # that fits is judged) and nothing spills over
                        ctx.hit("text_longer_than_field")
                        whole = v
                        while len(whole.encode()) > n:
                            whole = whole[:-1]
                        compare_only = len(whole.encode())
                else:
                    v = seed & ((1 << (8 * n)) - 1)
                    packed = struct.pack(fmt, v)
                target = ((x, y), addr, packed)
                call = lambda: mc.write_vcpu_struct_field(f, v, x, y, p)
            else:
                expect_read = ((x, y), addr, n)
                call = lambda: mc.read_vcpu_struct_field(f, x, y, p)
        elif kind == "lwrite":
            _, x, y, link, addr, data = op
            target = (neigh(x, y, link), addr, data)
            n = len(data)
            ctx.hit("link_op")
            call = lambda: mc.write_across_link(addr, data, x, y, link)
        elif kind == "lread":
            _, x, y, link, addr, n = op
            expect_read = (neigh(x, y, link), addr, n)
            ctx.hit("link_op")
            call = lambda: mc.read_across_link(addr, n, x, y, link)
        else:
            raise AssertionError(kind)
        if n > b:
            multi += 1
            ctx.hit("multi_buffer_op")
        if target and (target[1] % 4 or (target[1] + len(target[2])) % 4):
            unaligned += 1
        if expect_read and (expect_read[1] % 4 or
                            (expect_read[1] + expect_read[2]) % 4):
            unaligned += 1
        before = {xy: dict(c.mem) for xy, c in m.chips.items()} \
            if target else None
        fills0 = {xy: len(c.big_fills) for xy, c in m.chips.items()}
        want_read = (m.chips[expect_read[0]].rd(expect_read[1],
                                                expect_read[2])
                     if expect_read else None)
        # ---- run it
        failed = None
        if not real:
            # bounded progress: a transfer of n bytes needs about n / buffer
            # commands, each sent at most n_tries times
            per = max(4, b & ~3)
            r.net.tx_budget = 200 + 12 * (n // per + 2) * 5
        try:
            got = call()
        except (sc.TimeoutError,) as e:
            failed = e
        except Violation:
            raise
        except UnicodeDecodeError as e:
            # A text field whose bytes are not valid UTF-8 (left by this
            # workload's own over-long name, cut in the middle of a
            # character) has no text to return: outside what the read of a
            # *text* field can be judged on.  Anything else stays a report.
            undecodable = False
            if kind == "rvf" and want_read is not None:
                try:
                    want_read.rstrip(b"\x00").decode("utf-8")
                except UnicodeDecodeError:
                    undecodable = True
            if not undecodable:
                raise Violation("unexpected-exception", "%s: %s: %s" %
                                (kind, type(e).__name__, e),
                                trace=trace[-4:], buffer=b,
                                window=case["window"],
                                protocol=m.protocol_errors[:3])
            ctx.count("undecodable_text_field_not_judged")
            continue
        except Exception as e:
            raise Violation("unexpected-exception", "%s: %s: %s" %
                            (kind, type(e).__name__, e), trace=trace[-4:],
                            buffer=b, window=case["window"],
                            protocol=m.protocol_errors[:3])
        ctx.hit("op_checked")
        if plan is not None and r.net.n_tx > tx0:
            ctx.hit("faulty_op")
        if real:
            ctx.hit("real_socket_op")
        where = dict(op=trace[-1], buffer=b, window=case["window"],
                     faults=bool(plan))
        check(not m.protocol_errors, "malformed-command",
              "; ".join(m.protocol_errors[:3]), **where)
        # every command of a plain transfer is addressed to the chip AND
        # core the caller named (per-core memory is another core's business)
        if kind in ("read", "write", "cread", "cwrite", "fill"):
            for cmd_, dest_, a_, pl_ in m.cmds[cmd_mark:]:
                if cmd_ not in (M.CMD["read"], M.CMD["write"],
                                M.CMD["fill"]):
                    continue        # e.g. the controller asking for the
                                    # machine's buffer size
                ctx.hit("command_destination")
                check(dest_ == (op[1], op[2], op[3]), "wrong-core-addressed",
                      "command %d went to %r, the caller named %r" %
                      (cmd_, dest_, (op[1], op[2], op[3])), **where)
        # conservation: every logged write lies in the expected range
        for xy, c in m.chips.items():
            for a, ln in c.writes:
                ctx.hit("write_conservation")
                ok = (target is not None and xy == target[0] and
                      target[1] <= a and a + ln <= target[1] + len(target[2]))
                check(ok, "write-outside-requested-range",
                      "chip %r bytes [%#x, %#x) written; requested %s" %
                      (xy, a, a + ln,
                       "none" if target is None else "chip %r [%#x, %#x)" %
                       (target[0], target[1], target[1] + len(target[2]))),
                      **where)
        for xy, c in m.chips.items():
            for s_, e_, _ in c.big_fills[fills0[xy]:]:
                ctx.hit("megabyte_fill")
                check(target is not None and xy == target[0] and
                      target[1] <= s_ and e_ <= target[1] + len(target[2]),
                      "write-outside-requested-range",
                      "chip %r bytes [%#x, %#x) filled" % (xy, s_, e_),
                      **where)
        if failed is not None:
            # too many losses: documented failure; memory inside the range
            # is unspecified, everything else was checked above
            ctx.count("timeouts")
            check(plan is not None, "timeout-on-a-faultless-network",
                  "%s: %s although no datagram was lost, delayed or "
                  "answered with an error" % (kind, failed), **where)
            if real:
                # wall-clock trouble (a starved server thread): the command
                # may still be executed later, so nothing after this point
                # can be judged - stop, never a verdict
                ctx.count("real_socket_case_abandoned")
                break
            continue
        if target is not None:
            chip = m.chips[target[0]]
            have = chip.rd(target[1], len(target[2]))
            if compare_only is not None:
                have, target = have[:compare_only], (
                    target[0], target[1], target[2][:compare_only]) + \
                    tuple(target[3:])
                inside_len = n
            else:
                inside_len = len(target[2])
            if have != target[2]:
                i = next(i for i in range(len(have)) if have[i] != target[2][i])
                check(False, "memory-differs-after-write",
                      "byte %d of %d at %#x is %#04x, expected %#04x" %
                      (i, len(have), target[1] + i, have[i], target[2][i]),
                      **where)
            # nothing else changed anywhere
            for xy, c in m.chips.items():
                old = before[xy]
                for a, v in c.mem.items():
                    if old.get(a, 0) != v:
                        inside = (xy == target[0] and target[1] <= a <
                                  target[1] + inside_len)
                        check(inside, "foreign-byte-changed",
                              "chip %r address %#x changed" % (xy, a), **where)
        if expect_read is not None:
            ctx.hit("read_bytes_compared")
            if kind in ("read", "cread", "lread"):
                check(isinstance(got, bytes) and got == want_read,
                      "read-returned-wrong-bytes",
                      "%d bytes from %#x: first difference at offset %s" %
                      (expect_read[2], expect_read[1],
                       next((i for i in range(min(len(got), len(want_read)))
                             if got[i] != want_read[i]),
                            "len %d vs %d" % (len(got), len(want_read)))),
                      **where)
            elif kind == "rsf":
                vals = struct.unpack(fmt, want_read)
                want = vals[0] if count == 1 else vals
                check(got == want, "struct-field-value",
                      "sv.%s read as %r, memory holds %r" % (f, got, want),
                      **where)
            elif kind == "rvf":
                want = struct.unpack(fmt, want_read)[0]
                if ch.endswith("s"):
                    want = want.strip(b"\0").decode("utf-8", "replace")
                check(got == want, "vcpu-field-value",
                      "vcpu[%d].%s read as %r, memory holds %r" %
                      (p, f, got, want), **where)
    if multi and unaligned:
        ctx.mark_nontrivial()
    ctx.count("datagrams", r.net.n_tx)
    ctx.note(dict(buffer=b, window=case["window"], ops=len(case["ops"]),
                  datagrams=r.net.n_tx, faults=bool(plan)))
    return "ok"
