"""C09 - application loading returns only when every requested core is loaded.

The real MachineController.load_application runs against the machine model.
A flood fill is assembled per chip: chips in the per-attempt miss set ignore
the whole fill, the others load the reassembled image onto the selected cores
at the end packet.  The oracle works on (a) every flood-fill datagram the
machine received, (b) the core table before/after, (c) the outcome."""
import contextlib
import os
import shutil
import struct
import tempfile

from ..core import check, Violation
from ..sim import machine as M

ID = "C09"
IMPORTS = ['rig.machine_control.machine_controller']
LEVEL = "fault_enumeration"
TECHNIQUE = ("reference-model monitor over the simulated machine's core "
             "table + offline checker of every recorded flood-fill packet "
             "sequence; per-attempt miss-set fault injection")
LEVEL_TEXT = ("Application maps (1-3 binaries whose sizes sit around "
              "multiples of the buffer, arbitrary chip/core sets) are loaded "
              "by the real controller while chosen chips silently miss chosen "
              "fills (none, one chip, a block, everything, everything but the "
              "last attempt), in both verification modes, with and without "
              "wait, with foreign and own cores already waiting; each fill's "
              "packet sequence is checked for well-formedness and for "
              "selecting exactly the still-missing cores, and the outcome is "
              "compared with the machine's core table."
              ' Two fifths of the cases are preceded, on the same controller, by a (failed or successful) load of an older build of the same files.')
LEVEL_NOTE = ("Trusted: the machine model's flood-fill semantics (a chip "
              "either takes a whole fill or none of it) and its independent "
              "region decoder. Binaries are whole words; buffer sizes are "
              "multiples of four.")
RULE = ("one case = one application map with a miss schedule and load "
        "options; non-trivial = at least one chip missed at least one fill "
        "and the map names >= 2 chips; distinct by case")
ASSUMPTIONS = [
    "binaries are a whole number of words and the machine reports a buffer "
    "size that is a multiple of four (the fill wire format counts words)",
    "cores not requested may only change from wait to run, through the "
    "start signal addressed to their application id",
]
FLOORS = {"earlier_failed_load_of_an_older_build": 100, "options_through_context": 500, "wait_false_through_context": 150, "fill_identifier_advanced": 500, "default_left_out": 400, "filename_and_targets_form": 100, "load_checked": 300, "fill_wellformed": 500, "retry_narrowed": 100,
          "loading_error_exact": 40, "returned_all_loaded": 150,
          "count_mode": 80, "percore_mode": 80}
ANCHORS = [("rig.machine_control.machine_controller",
            "MachineController.load_application",
            {"count_matched": "unloaded = {}",
             "per_core_check": "state = consts.AppState(",
             "loading_error": "raise SpiNNakerLoadingError(unloaded)",
             "start_signal": "self.send_signal(\"start\", app_id)"})]
SHARDS = {"quick": 16, "thorough": 64}
CLASSES = ["clean", "one_miss", "block_miss", "all_but_last", "always_miss",
           "prewait", "multi", "random", "big", "blocks"]
KF_BIG = "binary-needs-more-than-255-blocks"
KF_COUNT = "count-mode-foreign-waiter-masks-miss"
KF_PRE = "requested-core-already-waiting-masks-miss"


def plan(tier):
    n = 600 if tier == "quick" else 16000
    return [(c, n // 6 if c in ("big", "blocks") else n) for c in CLASSES] + \
        [("whole64", 2 if tier == "quick" else 32)]


def gen(cls, idx, rng, tier):
    if cls == "whole64":
        # the same application on a core of EVERY chip of a 64x64 machine:
        # the loader names all 4096 chips with one region word of the
        # coarsest level
        cs = sorted(rng.sample(range(1, 18), rng.randint(1, 2)))
        targets = {(x, y): list(cs) for x in range(64) for y in range(64)}
        for _ in range(rng.randint(0, 5)):
            xy = (rng.randrange(64), rng.randrange(64))
            targets[xy] = sorted(set(targets[xy]) |
                                 {rng.choice([c for c in range(1, 18)
                                              if c not in cs])})
        miss = [sorted({(rng.randrange(64), rng.randrange(64))
                        for _ in range(rng.choice([0, 0, 3]))}), []]
        return dict(w=64, h=64, dead=[], buf=256,
                    bins=[dict(size=rng.choice([64, 256, 260]),
                               fill=rng.randrange(256),
                               targets=sorted(targets.items()))],
                    miss=[miss], n_tries=2, wait=idx % 2 == 0,
                    use_count=idx % 4 < 2, app_id=rng.choice([30, 66, 255]),
                    pre=[])
    w, h = rng.choice([(1, 1), (2, 2), (3, 3), (4, 2), (4, 4)])
    if cls == "blocks":
        w, h = rng.choice([(8, 4), (4, 8), (8, 8)])
        if idx % 6 == 5:
            # a whole 16x16 block (one region word two levels up)
            w, h = 16, 16
    dead = []
    if w * h > 2 and rng.random() < .3 and w < 16:
        dead = [(rng.randrange(w), rng.randrange(h))]
        if dead[0] == (0, 0):
            dead = []
    chips = [(x, y) for x in range(w) for y in range(h) if (x, y) not in dead]
    buf = rng.choice([16, 64, 128, 256, 256, 512, 1024])
    if cls == "big":
        buf = rng.choice([16, 16, 64])
    nbin = rng.randint(2, 3) if cls == "multi" else rng.choice([1, 1, 2])
    used = {}
    bins = []
    for b in range(nbin):
        size = rng.choice([4, buf - 4, buf, buf + 4, 2 * buf - 4, 2 * buf,
                           3 * buf + 4, 4 * rng.randint(1, 3 * buf // 4 + 5)])
        if cls == "big":
            # many blocks: the block counter and block numbers are 8-bit
            # fields of the start / data packets
            nb = rng.choice([127, 128, 129, 200, 254, 255, 255, 256, 257,
                             300])
            size = nb * buf - rng.choice([0, 4, buf - 4])
        targets = {}
        if cls == "blocks" and b == 0:
            # one core set on every chip of an aligned 4x4 block (which the
            # loader names with ONE region word) and the same core set on a
            # few chips of other blocks, their corner chips first
            cs = sorted(rng.sample(range(1, 18), rng.randint(1, 3)))
            bx, by = rng.choice([(x, y) for x in range(0, w, 4)
                                 for y in range(0, h, 4)])
            block = [(x, y) for x in range(bx, bx + 4)
                     for y in range(by, by + 4)]
            corners = [(x, y) for x in range(0, w, 4) for y in range(0, h, 4)
                       if (x, y) != (bx, by)]
            extra = rng.sample(corners, rng.randint(1, len(corners))) + \
                rng.sample([c for c in chips if c not in block],
                           rng.randint(0, 3))
            if w == 16:
                block, extra = list(chips), []
            for xy in block + extra:
                if xy in chips:
                    targets[xy] = list(cs)
                    used.setdefault(xy, set()).update(cs)
            if rng.random() < .7:
                # further cores of the same binary on a few chips of the
                # full block
                for xy in rng.sample(block, rng.randint(1, 6)):
                    if xy in chips:
                        more = rng.sample([c for c in range(1, 18)
                                           if c not in cs],
                                          rng.randint(1, 2))
                        targets[xy] = sorted(set(targets[xy]) | set(more))
                        used[xy].update(more)
        for xy in ([] if targets else
                   rng.sample(chips, rng.randint(1, min(len(chips), 5)))):
            free = [c for c in range(1, 18) if c not in used.get(xy, set())]
            cs = set(rng.sample(free, rng.randint(1, min(4, len(free)))))
            used.setdefault(xy, set()).update(cs)
            targets[xy] = sorted(cs)
        bins.append(dict(size=size, fill=rng.randrange(256),
                         targets=sorted(targets.items())))
    n_tries = rng.choice([0, 1, 2, 2, 3])
    miss = []
    for b in bins:
        tchips = [xy for xy, _ in b["targets"]]
        sched = []
        for att in range(n_tries + 1):
            if cls == "clean":
                s = []
            elif cls == "one_miss":
                s = [rng.choice(tchips)] if att == 0 else []
            elif cls == "block_miss":
                s = rng.sample(tchips, rng.randint(1, len(tchips))) \
                    if att < rng.randint(1, 2) else []
            elif cls == "all_but_last":
                s = list(chips) if att < n_tries else []
            elif cls == "always_miss":
                s = tchips[:rng.randint(1, len(tchips))]
            else:
                s = rng.sample(tchips, rng.randint(0, len(tchips))) \
                    if rng.random() < .4 else []
            sched.append(sorted(s))
        miss.append(sched)
    pre = []
    if cls == "prewait" or rng.random() < .15:
        for _ in range(rng.randint(1, 3)):
            xy = rng.choice(chips)
            own = rng.random() < .4 and used.get(xy)
            c = rng.choice(sorted(used[xy])) if own else rng.randrange(1, 18)
            pre.append((xy, c, "same" if own else
                        rng.choice(["same", "same", "other"])))
    return dict(w=w, h=h, dead=dead, buf=buf, bins=bins, miss=miss,
                n_tries=n_tries, wait=rng.random() < .4,
                use_count=rng.random() < .5, app_id=rng.choice([30, 66, 255]),
                pre=pre)


def image_of(b, i):
    """The bytes of binary i.  A third of the binaries are a short periodic
    pattern (so that whole blocks of them are byte-identical), the others
    have no two blocks alike (so that a block sent out of place, twice or
    under another block's number is visible in the reassembled image)."""
    if (b["fill"] + b["size"] // 4 + i) % 3 == 0:
        return bytes((b["fill"] + i * 7 + j * (i + 3)) & 0xff
                     for j in range(b["size"]))
    import random
    return random.Random(b["fill"] * 1000003 + i * 7919 +
                         b["size"]).randbytes(b["size"])


def run(case, ctx):
    too_many = [b["size"] for b in case["bins"]
                if -(-b["size"] // case["buf"]) > 255]
    if not too_many:
        return run_(case, ctx)
    try:
        return run_(case, ctx)
    except Violation as v:
        # listed finding: nothing on the wire can announce that many blocks
        ctx.finding(v.kind, KF_BIG,
                    "a binary of %d bytes needs %d blocks of %d bytes: %s" %
                    (too_many[0], -(-too_many[0] // case["buf"]), case["buf"],
                     str(v)[:200]))
        ctx.mark_nontrivial()


def too_big(case):
    return any(-(-b["size"] // case["buf"]) > 255 for b in case["bins"])


def run_(case, ctx):
    m = M.Machine(case["w"], case["h"], dead=[tuple(d) for d in case["dead"]],
                  buffer_size=case["buf"])
    if (case["buf"] // 4 + case["w"]) % 2:
        m.diversify(case["app_id"])
    app_id = case["app_id"]
    images = [image_of(b, i) for i, b in enumerate(case["bins"])]
    requested = {}          # (xy, core) -> binary index
    for i, b in enumerate(case["bins"]):
        for xy, cores in b["targets"]:
            for c in cores:
                requested[(tuple(xy), c)] = i
    # cores already waiting from earlier loads
    prewaiting = set()      # waiting under the requested application id
    pre_any = set()         # waiting under any application id
    for xy, c, which in case["pre"]:
        xy = tuple(xy)
        a = app_id if which == "same" else (app_id % 200) + 1
        m.chips[xy].core_image[c] = b"old-image"
        m.set_core(xy, c, M.WAIT, a)
        pre_any.add((xy, c))
        # the same core may be listed twice: the later entry is its state
        prewaiting.discard((xy, c))
        if a == app_id:
            prewaiting.add((xy, c))
    attempts = [0] * len(images)

    def miss_fn(fill):
        try:
            i = images.index(fill["image"])
        except ValueError:
            return set()
        att = attempts[i]
        attempts[i] += 1
        fill["binary"], fill["attempt"] = i, att
        sched = case["miss"][i]
        return {tuple(c) for c in (sched[att] if att < len(sched) else [])}
    m.miss_fn = miss_fn
    before = {xy: (list(c.core_state), list(c.core_app), list(c.core_image))
              for xy, c in m.chips.items()}
    r = M.Rig(m)
    if (case["buf"] + len(case["bins"])) % 3 == 0:
        # the machine does not answer when the controller first talks to it
        # (not up yet); the application catches the error and carries on
        r.net.plan = lambda net, sock, data, n: [("lost",)]
        try:
            r.mc.read(0x60000000, 4, 0, 0, 0)
            raise Violation("oracle", "silent machine answered")
        except r.sc.SCPError:
            ctx.hit("first_contact_failed")
        r.net.plan = None
        del m.protocol_errors[:]
    mc = r.mc
    if hasattr(mc, "_get_next_nn_id") and (case["buf"] + case["n_tries"]) % 3:
        # a controller that has been loading applications all day: its fill
        # identifiers (1..126, sent doubled) are anywhere in their cycle
        k = [61, 62, 63, 64, 100, 124, 125, 126, 127, 7][
            (case["buf"] // 4 + len(case["bins"]) + case["app_id"]) % 10]
        for _ in range(k):
            mc._get_next_nn_id()
        m.last_fill_id = None
        ctx.hit("fill_identifier_advanced")
    tmp = tempfile.mkdtemp(prefix="rv-c09-")
    try:
        names = []
        amap = {}
        for i, b in enumerate(case["bins"]):
            path = os.path.join(tmp, "app%d.aplx" % i)
            with open(path, "wb") as f:
                f.write(images[i])
            names.append(path)
            amap[path] = {tuple(xy): set(cs) for xy, cs in b["targets"]}
            if (len(images[i]) // 4 + i) % 2:
                # chips that get the same cores share ONE set object (what
                # dict.fromkeys(chips, cores) builds)
                shared = {}
                for xy, cs in list(amap[path].items()):
                    k_ = frozenset(cs)
                    if k_ in shared:
                        ctx.hit("core_set_object_shared_between_chips")
                    amap[path][xy] = shared.setdefault(k_, cs)
        snapshot = {k: {xy: set(cs) for xy, cs in v.items()}
                    for k, v in amap.items()}
        psel = (len(images[0]) // 4 + case["app_id"] + case["n_tries"]) % 5
        if psel < 2 and not too_big(case):
            # earlier today the same controller loaded an OLDER BUILD of the
            # same files (and, psel 0, the load failed: the machine missed
            # every fill); the files have been rebuilt since and the machine
            # reset.  What is judged is the load of the files as they are now
            ctx.hit("earlier_load_of_an_older_build" if psel else
                    "earlier_failed_load_of_an_older_build")
            for path, img in zip(names, images):
                with open(path, "wb") as f:
                    f.write(bytes(b ^ 0x3c for b in img) +
                            b"old!" * (1 + len(img) % 3))
            m.miss_fn = (lambda fill: set(m.chips)) if psel == 0 else \
                (lambda fill: set())
            try:
                mc.load_application(
                    {k_: {xy: set(cs) for xy, cs in v.items()}
                     for k_, v in amap.items()}, app_id=app_id, n_tries=2)
            except r.mcm.SpiNNakerLoadingError:
                pass
            except Exception as e:
                raise Violation("unexpected-exception", "earlier load: %s: %s"
                                % (type(e).__name__, e),
                                protocol=m.protocol_errors[:3])
            for xy, c_ in m.chips.items():
                st, ap, im = before[xy]
                for q in range(len(st)):
                    c_.core_image[q] = im[q]
                    m.set_core(xy, q, st[q], ap[q])
            del m.fills[:]
            del m.protocol_errors[:]
            m.last_fill_id = None
            m.miss_fn = miss_fn
            for path, img in zip(names, images):
                with open(path, "wb") as f:
                    f.write(img)
        try:
            kw = dict(app_id=app_id, n_tries=case["n_tries"],
                      wait=case["wait"], use_count=case["use_count"])
            # documented defaults may be left out (wait=False, n_tries=2,
            # use_count=True): what they are does not depend on what this or
            # another controller was asked before
            if (len(images[0]) // 4 + case["n_tries"]) % 2:
                for k_, dflt in (("wait", False), ("n_tries", 2),
                                 ("use_count", True)):
                    if kw[k_] == dflt and type(kw[k_]) is type(dflt):
                        del kw[k_]
                        ctx.hit("default_left_out")
            # the contextual options (application id, tries, wait) may also
            # reach the call through an enclosing block or the controller's
            # current context - "asked to" whichever way
            sel = (len(images[0]) // 4 * 7 + case["n_tries"] * 3 +
                   sum(len(cs) for b in case["bins"]
                       for _, cs in b["targets"])) % 5
            outer = {}
            if sel in (1, 2, 3):
                for k_ in [("wait",), ("wait", "app_id"),
                           ("n_tries", "wait", "app_id")][sel - 1]:
                    if k_ in kw:
                        outer[k_] = kw.pop(k_)
            if outer:
                ctx.hit("options_through_context")
                if "wait" in outer and outer["wait"] is False:
                    ctx.hit("wait_false_through_context")
            if outer and sel == 3:
                mc.update_current_context(**outer)
                block = contextlib.nullcontext()
            else:
                block = mc(**outer) if outer else contextlib.nullcontext()
            with block:
                if len(amap) == 1 and \
                        (case["n_tries"] + len(images[0])) % 3 == 0:
                    # the other documented call form: file name, then targets
                    ctx.hit("filename_and_targets_form")
                    mc.load_application(names[0], amap[names[0]], **kw)
                else:
                    mc.load_application(amap, **kw)
            outcome, err = "returned", None
        except r.mcm.SpiNNakerLoadingError as e:
            outcome, err = "loading-error", e
        except Exception as e:
            raise Violation("unexpected-exception", "%s: %s" %
                            (type(e).__name__, e),
                            protocol=m.protocol_errors[:3])
    finally:
        shutil.rmtree(tmp, ignore_errors=True)
    ctx.hit("load_checked")
    ctx.hit("count_mode" if case["use_count"] else "percore_mode")
    opts = dict(n_tries=case["n_tries"], wait=case["wait"],
                use_count=case["use_count"], buffer=case["buf"])
    check(amap == snapshot, "argument-mutated", "application map changed",
          **opts)
    check(not m.protocol_errors, "malformed-flood-fill",
          "; ".join(m.protocol_errors[:3]), **opts)
    check(m.fill is None, "fill-left-open", "no end packet for the last fill",
          **opts)
    # ---- every fill is well formed and selects exactly the missing cores
    loaded = set()          # requested cores holding their binary so far
    any_miss = False
    last_pid = None
    sdram_sys = m.chips[m.root].sdram_sys
    for f in m.fills:
        ctx.hit("fill_wellformed")
        where = dict(fill=m.fills.index(f), order=f["order"][:12], **opts)
        check("binary" in f, "fill-image-not-a-requested-binary",
              "reassembled %d bytes match no binary" % len(f["image"]),
              **where)
        i, att = f["binary"], f["attempt"]
        check(att <= case["n_tries"], "too-many-attempts",
              "binary %d sent %d times with n_tries=%d" %
              (i, att + 1, case["n_tries"]), **where)
        nblocks = len(f["blocks"])
        check(f["n"] == nblocks and sorted(f["blocks"]) ==
              list(range(nblocks)) and not f["dup_blocks"],
              "block-count", "announced %d blocks, sent %r" %
              (f["n"], sorted(f["blocks"])), **where)
        order = f["order"]
        k = 1
        while k < len(order) and order[k] == "ffcs":
            k += 1
        check(order[0] == "ffs" and k >= 2 and
              order[k:] == ["ffd%d" % j for j in range(nblocks)] + ["ffe"],
              "packet-order", repr(order[:14]), **where)
        addr = sdram_sys
        for j in range(nblocks):
            a, payload = f["blocks"][j]
            check(a == addr and 0 < len(payload) <= case["buf"],
                  "block-address-or-size",
                  "block %d at %#x (%d bytes), expected %#x, buffer %d" %
                  (j, a, len(payload), addr, case["buf"]), **where)
            addr += len(payload)
        check(f["pid"] == f["end_pid"], "fill-identifier",
              "start carries id %r, end carries %r" % (f["pid"],
                                                        f["end_pid"]),
              **where)
        last_pid = f["pid"]
        check(f["app"] == app_id and (f["flags"] & 1 or not case["wait"]),
              "fill-app-or-flags",
              "app %d flags %#x" % (f["app"], f["flags"]), **where)
        keys = [(rg << 32) | mk for rg, mk in f["sel"]]
        check(all(a_ < b_ for a_, b_ in zip(keys, keys[1:])),
              "core-selects-not-increasing", repr(f["sel"][:6]), **where)
        want = {k_ for k_, bi in requested.items()
                if bi == i and k_ not in loaded}
        if att > 0:
            ctx.hit("retry_narrowed")
        if f["selected"] != want:
            # cores that rig believes loaded although they are not (listed
            # mechanisms) make it select fewer cores than are missing
            extra, missing = f["selected"] - want, want - f["selected"]
            check(not extra, "fill-selects-unrequested-or-loaded-cores",
                  "attempt %d of binary %d selects %r beyond the missing "
                  "cores" % (att, i, sorted(extra)[:5]), **where)
            if not (missing <= pre_any):
                check(False, "fill-skips-missing-cores",
                      "attempt %d of binary %d omits missing cores %r" %
                      (att, i, sorted(missing)[:5]), **where)
        if f["missed_by"] & {xy for (xy, c) in f["selected"]}:
            any_miss = True
        for (xy, c) in f["selected"]:
            if xy in m.chips and xy not in f["missed_by"] and \
                    (xy, c) in requested and requested[(xy, c)] == i:
                loaded.add((xy, c))
    # ---- outcome vs the machine's core table
    not_loaded = set()
    for (xy, c), i in requested.items():
        chip = m.chips[xy]
        if not (chip.core_image[c] == images[i] and chip.core_app[c] == app_id):
            not_loaded.add((xy, c))
    mech = None
    # cores the machine reported as waiting under the application id when
    # the last fill had been sent: requested cores that took a fill, plus
    # everything that was already waiting and was not re-loaded
    count_wait = len(loaded) + len(prewaiting - loaded)
    if not_loaded <= pre_any and not_loaded:
        mech = KF_PRE
    elif case["use_count"] and prewaiting and \
            count_wait == len(requested):
        # the documented count check is satisfied by coincidence
        mech = KF_COUNT
    if outcome == "returned":
        if not_loaded:
            msg = ("load_application returned normally but cores %r do not "
                   "hold their binary (use_count=%r, already waiting under "
                   "app %d: %r)" % (sorted(not_loaded)[:6], case["use_count"],
                                    app_id, sorted(prewaiting)[:6]))
            if mech:
                ctx.finding("returned-with-unloaded-cores", mech, msg, **opts)
            else:
                check(False, "returned-with-unloaded-cores", msg, **opts)
        else:
            ctx.hit("returned_all_loaded")
            want_state = M.WAIT if case["wait"] else M.RUN
            bad = [(xy, c, m.chips[xy].core_state[c])
                   for (xy, c) in requested
                   if m.chips[xy].core_state[c] != want_state]
            check(not bad, "loaded-core-in-wrong-state",
                  "%r (expected state %d)" % (bad[:5], want_state), **opts)
    else:
        ctx.hit("loading_error_exact")
        named = set()
        for name, targets in err.app_map.items():
            check(name in names, "error-names-foreign-binary", repr(name))
            for xy, cores in targets.items():
                for c in cores:
                    named.add((tuple(xy), c))
                    check(requested.get((tuple(xy), c)) == names.index(name),
                          "error-names-unrequested-core",
                          "%r core %d under %s" % (xy, c, name), **opts)
        # the message a user reads names the same cores as the attribute
        import re
        said = {((int(a), int(b)), int(c_)) for a, b, c_ in re.findall(
            r"\((\d+), (\d+), (\d+)\)", str(err))}
        ctx.hit("error_message_compared")
        check(said == named, "loading-error-message-inexact",
              "the error's text names %r, its app_map %r" %
              (sorted(said)[:8], sorted(named)[:8]), **opts)
        if named != not_loaded:
            msg = ("SpiNNakerLoadingError names %r, cores actually not "
                   "loaded: %r" % (sorted(named)[:6], sorted(not_loaded)[:6]))
            if (not_loaded - named) <= pre_any and not (named - not_loaded):
                ctx.finding("error-omits-unloaded-cores", KF_PRE, msg, **opts)
            else:
                check(False, "loading-error-inexact", msg, **opts)
        for i in range(len(images)):
            mine = {k_ for k_, bi in requested.items() if bi == i}
            if mine & not_loaded and not (mine & not_loaded <= pre_any):
                check(attempts[i] == case["n_tries"] + 1,
                      "gave-up-early", "binary %d sent %d times, n_tries=%d" %
                      (i, attempts[i], case["n_tries"]), **opts)
    # ---- nothing else was touched
    for xy, chip in m.chips.items():
        st0, app0, img0 = before[xy]
        for c in range(chip.ncores):
            if (xy, c) in requested:
                continue
            same = (chip.core_app[c] == app0[c] and
                    chip.core_image[c] == img0[c])
            st_ok = chip.core_state[c] == st0[c] or (
                st0[c] == M.WAIT and chip.core_state[c] == M.RUN and
                app0[c] == app_id and not case["wait"] and
                outcome == "returned")
            check(same and st_ok, "unrequested-core-changed",
                  "chip %r core %d: state %d->%d app %d->%d" %
                  (xy, c, st0[c], chip.core_state[c], app0[c],
                   chip.core_app[c]), **opts)
    if any_miss and len({xy for (xy, c) in requested}) >= 2:
        ctx.mark_nontrivial()
    ctx.note(dict(outcome=outcome, fills=len(m.fills), attempts=attempts,
                  requested=len(requested), not_loaded=len(not_loaded),
                  trace=[f["order"][:8] for f in m.fills][:4]))
    return "ok"
