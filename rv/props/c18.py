"""C18 - commands go to the chip, core and application the caller named.

For every context-decorated method of MachineController and BMPController a
call is made with the contextual arguments supplied positionally, by keyword,
through (nested) context blocks or left to their defaults.  The datagrams it
produces must (metamorphic) equal those of the same call made with everything
explicit on a fresh controller over an identical machine, and (absolute) carry
the resolved chip / core in the SDP header and the resolved application id /
board in the documented argument bits.  Context stacks must be restored on
every exit path; connection selection is compared with an independent model
of the SpiNN-5 tiling."""
import importlib
import os
import shutil
import struct
import tempfile

from ..core import check, Violation
from ..sim import machine as M
from ..sim import net as simnet
from . import c19

ID = "C18"
IMPORTS = ['rig.machine_control.machine_controller', 'rig.machine_control.bmp_controller', 'rig.utils.contexts']
LEVEL = "exploration"
TECHNIQUE = ("wire-level monitor (every datagram's destination, payload and "
             "connection) with a metamorphic oracle (explicit-argument twin "
             "on a fresh controller) and absolute header/argument checks; "
             "context-stack invariant hook around every block")
LEVEL_TEXT = ("Every decorated method found by introspection (39 machine + 7 "
              "board methods on the pinned tree) is called with its "
              "contextual arguments supplied in one of {all keyword, "
              "positional, innermost context, split over nested contexts with "
              "decoy outer values, context overridden by keyword, defaults, "
              "one required argument missing}; datagrams are compared with an "
              "all-explicit twin call and with the resolved values, the "
              "context stack is compared before/after every block including "
              "exits by exception at every depth, application blocks must "
              "send the stop signal, and after discover_connections every "
              "datagram must leave by the connection of the board holding "
              "its target."
              ' Boards connected after the first discovery (and after a survey of the machine); commands issued from before_close functions.')
LEVEL_NOTE = ("Trusted: the machine model, the per-method table of where the "
              "resolved values appear on the wire (from the method "
              "docstrings), the independent tile model of C19.")
RULE = ("one case = one method call pattern, one context-nesting history or "
        "one multi-board connection scenario; non-trivial = at least one "
        "contextual argument was resolved from a context block or a default "
        "and at least one datagram was produced (or a missing argument was "
        "rejected); distinct by case")
ASSUMPTIONS = [
    "machine-wide commands (signals, flood fill, counts) are addressed to "
    "(255, 255, 0); set_power always addresses board 0 (documented)",
    "per-core field accesses address core 0 of the chip and select the core "
    "through the address",
]
FLOORS = {"command_from_before_close_hook": 20, "cable_plugged_in_later": 20, "block_left_by_interrupt": 20, "discovered_connection_tries": 60, "discovery_from_a_named_chip": 10, "sibling_controller": 10, "signal_by_name": 30, "state_by_name": 20, "led_action": 10, "application_object_reused": 5, "method_call_checked": 500, "twin_compared": 400,
          "missing_argument_rejected": 40, "stack_restored": 300,
          "exception_exit": 60, "application_stop_signal": 20,
          "connection_choice": 300, "bmp_call_checked": 80}
SHARDS = {"quick": 16, "thorough": 64}
KF_LEAK = "context-core-leaks-into-helper-commands"
PLANS = ["all_kw", "positional", "ctx_inner", "ctx_split", "ctx_overridden",
         "default", "missing"]

# method -> (base args builder, contextual args in signature order, family)
MC_METHODS = {
    "read": (lambda r: (0x60000000 + 4 * r.randrange(64),
                        r.choice([r.randint(1, 40), 300, 700])),
             ["x", "y", "p"], "mem"),
    "write": (lambda r: (0x60000000 + 4 * r.randrange(64),
                         bytes(r.getrandbits(8) for _ in range(
                             r.choice([r.randint(1, 40), 300, 520])))),
              ["x", "y", "p"], "mem"),
    "fill": (lambda r: (0x60000000 + 4 * r.randrange(64), r.getrandbits(8),
                        4 * r.randint(1, 8)), ["x", "y", "p"], "mem"),
    "read_struct_field": (lambda r: ("sv", r.choice(["p2p_addr", "led0"])),
                          ["x", "y", "p"], "mem"),
    "write_struct_field": (lambda r: ("sv", "utmp1", r.getrandbits(32)),
                           ["x", "y", "p"], "mem"),
    "read_vcpu_struct_field": (lambda r: (r.choice(["r0", "user1", "lr"]),),
                               ["x", "y", "p"], "vcpu"),
    "write_vcpu_struct_field": (lambda r: ("user2", r.getrandbits(32)),
                                ["x", "y", "p"], "vcpu"),
    "get_processor_status": (lambda r: (), ["p", "x", "y"], "vcpu"),
    "get_iobuf": (lambda r: (), ["p", "x", "y"], "vcpu"),
    "get_iobuf_bytes": (lambda r: (), ["p", "x", "y"], "vcpu"),
    "get_chip_info": (lambda r: (), ["x", "y"], "chip0"),
    "get_ip_address": (lambda r: (), ["x", "y"], "chip0"),
    "get_num_working_cores": (lambda r: (), ["x", "y"], "chip0"),
    "get_p2p_routing_table": (lambda r: (), ["x", "y"], "chip0"),
    "get_router_diagnostics": (lambda r: (), ["x", "y"], "chip0"),
    "get_routing_table_entries": (lambda r: (), ["x", "y"], "chip0"),
    "get_working_links": (lambda r: (), ["x", "y"], "chip0"),
    "iptag_clear": (lambda r: (r.randrange(8),), ["x", "y"], "chip0"),
    "iptag_get": (lambda r: (r.randrange(8),), ["x", "y"], "chip0"),
    "iptag_set": (lambda r: (r.randrange(8), "10.1.2.3", 50000 + r.randrange(9)),
                  ["x", "y"], "chip0"),
    "set_led": (lambda r: (r.choice([r.randrange(4), [0, 2], (1, 3),
                                     "GEN:0,3", "GEN:2"]),
                           r.choice([True, False, None])),
                ["x", "y"], "chip0"),
    "sdram_free": (lambda r: (0x60100000,), ["x", "y"], "chip0"),
    "read_across_link": (lambda r: (0x60000000, 8), ["x", "y", "link"],
                         "link"),
    "write_across_link": (lambda r: (0x60000000, b"12345678"),
                          ["x", "y", "link"], "link"),
    "sdram_alloc": (lambda r: (r.randint(4, 64), r.randrange(3)),
                    ["x", "y", "app_id"], "app-chip"),
    "sdram_alloc+clear": (lambda r: (4 * r.randint(1, 16), 0),
                          ["x", "y", "app_id"], "app-chip"),
    "sdram_alloc_as_filelike": (lambda r: (r.randint(4, 64), 0),
                                ["x", "y", "app_id"], "app-chip"),
    "load_routing_table_entries": (lambda r: ("ENTRIES",),
                                   ["x", "y", "app_id"], "app-chip"),
    "clear_routing_table_entries": (lambda r: (), ["x", "y", "app_id"],
                                    "app-chip"),
    "send_signal": (lambda r: (r.choice(["stop", "start", "pause", 7, 2]),),
                    ["app_id"], "app-global"),
    "count_cores_in_state": (lambda r: (r.choice(
        ["run", "wait", "idle", 7, ["run", "wait"], ("idle", "run", "sync0"),
         ["exit"]]),), ["app_id"], "app-global"),
    "wait_for_cores_to_reach_state": (lambda r: (r.choice(
        ["idle", ["run", "idle"], ("wait", "pause")]), 0), ["app_id"],
        "app-global"),
    "wait_for_cores_to_reach_state+poll": (lambda r: (r.choice(
        ["idle", "run", ("wait", "pause")]), 9999), ["app_id"], "app-global"),
    "load_routing_tables": (lambda r: ("TABLES",), ["app_id"], "app-tables"),
    "flood_fill_aplx": (lambda r: r.choice([("APLX", "TARGETS"), ("MAP",)]),
                        ["app_id"], "app-global"),
    "load_application": (lambda r: r.choice([("APLX", "TARGETS"), ("MAP",)]),
                         ["app_id"], "app-global"),
    "get_software_version": (lambda r: (), ["x", "y", "processor"], "sver"),
    "get_system_info": (lambda r: (), ["x", "y"], "first-chip0"),
    "discover_connections": (lambda r: (), ["x", "y"], "first-chip0"),
    "send_scp": (lambda r: (0,), ["x", "y", "p"], "mem"),
    "application": (lambda r: (), ["app_id"], "application"),
}
EXTRA_KW = {"clear": {"clear": True},
            "poll": {"poll_interval": 0.05, "timeout": 0.22}}
DEFAULTS = {"read": {"p": 0}, "write": {"p": 0},
            "read_struct_field": {"p": 0}, "write_struct_field": {"p": 0},
            "get_software_version": {"x": 255, "y": 255, "processor": 0},
            "get_system_info": {"x": 255, "y": 255},
            "discover_connections": {"x": 255, "y": 255}}
KWONLY = {"send_scp", "sdram_alloc", "sdram_alloc+clear",
          "sdram_alloc_as_filelike", "sdram_free",
          "set_led", "flood_fill_aplx", "load_application"}
# methods with a documented failure path that issues further commands
REFUSABLE = {"sdram_alloc", "sdram_alloc+clear", "sdram_alloc_as_filelike",
             "load_routing_table_entries", "load_routing_tables"}
BMP_METHODS = {
    "get_software_version": (lambda r: (), "board"),
    "read_adc": (lambda r: (), "board"),
    "read_fpga_reg": (lambda r: (r.randrange(3), 4 * r.randrange(8)),
                      "board"),
    "write_fpga_reg": (lambda r: (r.randrange(3), 4 * r.randrange(8),
                                  r.getrandbits(32)), "board"),
    "set_led": (lambda r: (r.randrange(8), True), "board"),
    "set_power": (lambda r: (False,), "power"),
    "send_scp": (lambda r: (0,), "board"),
}
BMP_KWONLY = {"send_scp", "set_led"}


def plan(tier):
    n = 110 if tier == "quick" else 9000
    return [("mc", n * len(PLANS)), ("nesting", 3 * n), ("connections", 2 * n),
            ("bmp", 4 * n), ("inventory", 1), ("siblings", n // 2),
            ("vocabulary", 8),
            ("deep", 6 if tier == "quick" else 120)]


def gen(cls, idx, rng, tier):
    if cls == "inventory":
        return dict(kind="inventory")
    if cls == "vocabulary":
        return dict(kind="vocabulary", app=rng.choice([30, 66, 201, 255]),
                    seed=rng.randrange(1 << 30))
    if cls == "siblings":
        return dict(kind="siblings", seed=rng.randrange(1 << 30),
                    a=dict(x=rng.randrange(3), y=rng.randrange(3),
                           p=rng.randrange(1, 17)),
                    b=(rng.randrange(3), rng.randrange(3)),
                    app=rng.choice([None, 31, 77]),
                    order=rng.randrange(4))
    if cls == "deep":
        # "all nestings": hundreds of blocks open at once
        depth = rng.choice([40, 255, 256, 257, 300, 700])
        return dict(kind="deep", depth=depth, seed=rng.randrange(1 << 30),
                    raise_at=rng.choice([None, None, depth // 2, depth - 1]))
    if cls == "mc":
        # every method x every plan in rotation (floors are met by
        # construction, not by luck)
        name = sorted(MC_METHODS)[(idx // len(PLANS)) % len(MC_METHODS)]
        case = gen_mc(name, idx, rng)
        if name in DEFAULTS and rng.random() < .3:
            # the caller names, explicitly, the very value the method would
            # default to: it still overrides whatever the context holds
            case["resolved"].update(DEFAULTS[name])
            case["explicit_default"] = True
        return case
    return gen_rest(cls, idx, rng, tier)


def gen_mc(name, idx, rng):
    if True:
        return dict(kind="mc", method=name, plan=PLANS[idx % len(PLANS)],
                    seed=rng.randrange(1 << 30),
                    refuse=name in REFUSABLE and rng.random() < .3,
                    resolved=dict(x=rng.randrange(3), y=rng.randrange(3),
                                  p=rng.randrange(1, 17),
                                  processor=rng.randrange(1, 17),
                                  link=rng.randrange(6),
                                  app_id=rng.choice([17, 30, 66, 200])),
                    decoy=dict(x=rng.randrange(3), y=rng.randrange(3),
                               p=rng.randrange(1, 17),
                               processor=rng.randrange(1, 17),
                               link=rng.randrange(6),
                               app_id=rng.choice([18, 31, 67, 201])))
    raise AssertionError(cls)


def gen_rest(cls, idx, rng, tier):
    if cls == "nesting" and idx % 3 == 2:
        # context objects kept by the application and entered again under
        # other enclosing contexts, with commands issued only innermost (an
        # observer that asks after every step would refresh whatever the
        # controller remembers about its stack)
        ops = []
        inner = []
        for rep in range(rng.randint(2, 5)):
            outer = {a: rng.randrange(3) if a in "xy" else
                     rng.randrange(1, 17) if a == "p" else
                     rng.choice([30, 31, 32])
                     for a in rng.sample(["x", "y", "p", "app_id"],
                                         rng.randint(1, 3))}
            ops.append(("enter", outer, False, False, False))
            if inner and rng.random() < .7:
                ops.append(("reenter", rng.choice(inner), True, False))
            else:
                args = {a: rng.randrange(3) if a in "xy" else
                        rng.randrange(1, 17)
                        for a in rng.sample(["x", "y", "p"],
                                            rng.randint(1, 2))}
                inner.append(len(ops) - rep - 1 + len(inner))
                ops.append(("enter", args, False, True, False))
                inner[-1] = sum(1 for o in ops if o[0] == "enter") - 1
            ops.append(("exit",))
            ops.append(("exit",))
        return dict(kind="nesting", ops=ops)
    if cls == "nesting":
        ops = []
        depth = 0
        for _ in range(rng.randint(3, 14)):
            k = rng.random()
            if k < .45 and depth < 5:
                args = {a: rng.randrange(3) if a in "xy" else
                        rng.randrange(1, 17) if a == "p" else
                        rng.choice([30, 31, 32])
                        for a in rng.sample(["x", "y", "p", "app_id"],
                                            rng.randint(0, 4))}
                ops.append(("enter", args, rng.random() < .25))
                depth += 1
            elif k < .53 and depth < 5 and ops:
                # re-enter a context object created earlier (possibly one
                # that is still active further down the stack)
                ops.append(("reenter", rng.randrange(8)))
                depth += 1
            elif k < .65 and depth:
                ops.append(("exit",))
                depth -= 1
            elif k < .75 and depth:
                ops.append(("raise", rng.randint(1, depth)))
                depth = 0
            elif k < .85:
                ops.append(("update", {rng.choice(["x", "y", "p"]):
                                       rng.randrange(3)}))
            else:
                ops.append(("probe",))
        return dict(kind="nesting", ops=ops)
    if cls == "connections":
        w, h = rng.choice([(12, 12), (24, 12), (12, 24), (24, 24), (8, 8),
                           (16, 16)])
        root = rng.choice([(0, 0), (0, 0), (4, 8), (8, 4)])
        if (w, h) in ((8, 8), (16, 16)):
            root = (0, 0)
        down = [i for i in range(12) if rng.random() < .25]
        unreachable = [i for i in range(12) if rng.random() < .15]
        targets = [(rng.randrange(w), rng.randrange(h)) for _ in range(12)]
        return dict(kind="connections", w=w, h=h, root=root, down=down,
                    unreachable=unreachable, targets=targets)
    name = sorted(BMP_METHODS)[(idx // len(PLANS)) % len(BMP_METHODS)]
    conns = rng.choice([[(0, 0)], [(0, 0), (0, 0, 3)], [(0, 0), (1, 0)],
                        [(0, 0, 1), (0, 0, 2), (0, 0)], [(2, 1), (2, 1, 7)]])
    board = rng.randrange(0, 8)
    if name in ("set_led", "set_power") and rng.random() < .4:
        board = sorted(rng.sample(range(8), rng.randint(2, 4)))
        rng.shuffle(board)
    return dict(kind="bmp", method=name, plan=PLANS[idx % len(PLANS)],
                conns=conns, seed=rng.randrange(1 << 30), board=board,
                # "int or iterable": lists are not the only iterables
                board_form=rng.choice(["list", "list", "gen", "iter",
                                       "tuple"]))


# --------------------------------------------------------------- helpers
def sent(rig, mark=0):
    return [e[3] for e in rig.net.log[mark:] if e[0] == "send"]


def dests(datagrams):
    out = []
    for d in datagrams:
        q = simnet.parse_scp(d)
        a = struct.unpack_from("<3I", q["body"] + b"\0" * 12)
        out.append(((q["dest_x"], q["dest_y"], q["dest_cpu"]), q["cmd"], a))
    return out


def fresh(seed, refuse=False, **controller_kw):
    m = M.Machine(3, 3, buffer_size=256)
    for c in m.chips.values():
        c.alloc_fail = c.rtr_fail = bool(refuse)
    import random
    rng = random.Random(seed)
    for c in m.chips.values():
        c.wr(0x60000000, bytes(rng.getrandbits(8) for _ in range(512)),
             log=False)
        c.allocs[0x60100000] = (64, 0, 30)
    r = M.Rig(m, **controller_kw)
    r.mc.scp_data_length      # prefetch so both twins start alike
    return r


def materialise(args, tmp, rt):
    """replace the placeholders of the method table by real objects"""
    out = []
    for a in args:
        if isinstance(a, str) and a.startswith("GEN:"):
            a = (int(v) for v in a[4:].split(","))     # one-shot iterable
        elif a == "ENTRIES":
            a = [rt.RoutingTableEntry({rt.Routes(2)}, 0x10, 0xff),
                 rt.RoutingTableEntry({rt.Routes(9)}, 0x20, 0xff)]
        elif a == "TABLES":
            a = {(1, 1): [rt.RoutingTableEntry({rt.Routes(3)}, 1, 0xf)],
                 (0, 2): [rt.RoutingTableEntry({rt.Routes(7)}, 2, 0xf)]}
        elif a == "APLX":
            a = os.path.join(tmp, "a.aplx")
            if not os.path.exists(a):
                with open(a, "wb") as f:
                    f.write(bytes(range(64)))
        elif a == "TARGETS":
            a = {(1, 0): {2, 3}, (2, 2): {5}}
        elif a == "MAP":
            path = os.path.join(tmp, "a.aplx")
            if not os.path.exists(path):
                with open(path, "wb") as f:
                    f.write(bytes(range(64)))
            a = {path: {(1, 0): {2, 3}, (2, 2): {5}}}
        out.append(a)
    return out


def call_with_plan(mc, name, base, cargs, resolved, decoy, plan, kwonly,
                   ambient_p=None):
    """-> (callable performing the call inside the right context blocks,
    did-it-use-context-or-default)"""
    defaults = DEFAULTS.get(name, {})
    extra_kw = EXTRA_KW.get(name.partition("+")[2], {})
    real = name.split("+")[0]
    meth0 = getattr(mc, real)
    meth = (lambda *a, **k: meth0(*a, **dict(extra_kw, **k))) if extra_kw \
        else meth0
    ctxs = []
    args, kw = list(base), {}
    used_ctx = False
    missing = None
    if plan == "all_kw":
        kw.update({a: resolved[a] for a in cargs})
    elif plan == "positional" and not kwonly:
        args += [resolved[a] for a in cargs]
    elif plan == "positional":
        kw.update({a: resolved[a] for a in cargs})
    elif plan == "ctx_inner":
        ctxs = [dict((a, decoy[a]) for a in cargs[:1]),
                dict((a, resolved[a]) for a in cargs)]
        used_ctx = True
    elif plan == "ctx_split":
        half = max(1, len(cargs) // 2)
        ctxs = [dict([(a, resolved[a]) for a in cargs[:half]] +
                     [(a, decoy[a]) for a in cargs[half:]]),
                dict((a, resolved[a]) for a in cargs[half:])]
        used_ctx = True
    elif plan == "ctx_overridden":
        ctxs = [dict((a, decoy[a]) for a in cargs)]
        kw.update({a: resolved[a] for a in cargs})
        used_ctx = True
    elif plan == "default":
        for a in cargs:
            if a in defaults:
                resolved[a] = defaults[a]
                used_ctx = True
            else:
                kw[a] = resolved[a]
    elif plan == "missing":
        # app_id is provided by the controller's initial context - unless
        # the controller was given an initial context of the caller's own
        has_app = not getattr(mc, "_rv_own_initial_context", False)
        req = [a for a in cargs if a not in defaults and
               (a != "app_id" or not has_app)]
        missing = ("app_id" if "app_id" in req else
                   req[-1] if req else None)
        kw.update({a: resolved[a] for a in cargs if a != missing})

    if ctxs and ambient_p is not None and "p" not in cargs:
        ctxs[0]["p"] = ambient_p        # e.g. `with mc(x=1, y=2, p=3):`
    visible_p = None
    for c in ctxs:
        visible_p = c.get("p", visible_p)

    def go():
        if not ctxs:
            return meth(*args, **kw)
        if len(ctxs) == 1:
            with mc(**ctxs[0]):
                return meth(*args, **kw)
        with mc(**ctxs[0]):
            with mc(**ctxs[1]):
                return meth(*args, **kw)
    return go, used_ctx, missing, visible_p


def run_mc(case, ctx):
    import random
    rt = importlib.import_module("rig.routing_table")
    name, plan_ = case["method"], case["plan"]
    build, cargs, family = MC_METHODS[name]
    rng = random.Random(case["seed"])
    base0 = build(rng)
    resolved, decoy = dict(case["resolved"]), dict(case["decoy"])
    tmp = tempfile.mkdtemp(prefix="rv-c18-")
    try:
        base = materialise(base0, tmp, rt)
        refuse = bool(case.get("refuse"))
        mcm = importlib.import_module(
            "rig.machine_control.machine_controller")
        refusal = (mcm.SpiNNakerMemoryError, mcm.SpiNNakerRouterError)
        own_ctx = {}
        if plan_ == "missing" and "app_id" in cargs and case["seed"] % 3:
            # a controller created with an initial context of the caller's
            # own that says nothing about the application
            own_ctx = dict(initial_context=[{}, {"x": 1, "y": 2}][
                case["seed"] % 2])
            ctx.hit("own_initial_context")
        A = fresh(case["seed"], refuse, **own_ctx)
        A.mc._rv_own_initial_context = bool(own_ctx)
        B = fresh(case["seed"], refuse)
        stack0 = A.mc.get_context_arguments()
        markA, markB = len(A.net.log), len(B.net.log)
        go, used_ctx, missing, visible_p = call_with_plan(
            A.mc, name, base, cargs, resolved, decoy, plan_, name in KWONLY,
            decoy["p"] if case["seed"] % 2 else None)
        where = dict(method=name, plan=plan_, resolved={a: resolved[a]
                                                        for a in cargs})
        A.activate()
        try:
            resA = go()
            excA = None
        except TypeError as e:
            resA, excA = None, e
        except refusal as e:
            check(refuse, "unexpected-exception", "%s(%s): %s: %s" %
                  (name, plan_, type(e).__name__, e), **where)
            resA, excA = None, e
        except Exception as e:
            raise Violation("unexpected-exception", "%s(%s): %s: %s" %
                            (name, plan_, type(e).__name__, e), **where)
        ctx.hit("method_call_checked")
        check(A.mc.get_context_arguments() == stack0, "context-not-restored",
              "context arguments after the call: %r, before: %r" %
              (A.mc.get_context_arguments(), stack0), **where)
        dgA = sent(A, markA)
        if missing is not None:
            ctx.hit("missing_argument_rejected")
            check(isinstance(excA, TypeError), "missing-argument-accepted",
                  "%s without %r returned %r" % (name, missing, resA),
                  **where)
            check(not dgA, "datagrams-before-rejection",
                  "%d datagrams sent although %r was missing" %
                  (len(dgA), missing), **where)
            ctx.mark_nontrivial()
            return
        if refuse:
            ctx.hit("refused_by_machine")
            check(isinstance(excA, refusal), "refusal-not-reported",
                  "%s(%s) on a machine that refuses the allocation: %r / %r"
                  % (name, plan_, resA, excA), **where)
        else:
            check(excA is None, "call-rejected", "%s(%s): %s" %
                  (name, plan_, excA), **where)
        if name == "application":
            return run_application(ctx, A, resA, resolved, where)
        # ---- twin: everything explicit on a fresh controller
        B.activate()
        try:
            extra = EXTRA_KW.get(name.partition("+")[2], {})
            getattr(B.mc, name.split("+")[0])(
                *materialise(base0, tmp, rt),
                **dict(extra, **{a: resolved[a] for a in cargs}))
            check(not refuse, "twin-failed", "explicit call was not refused",
                  **where)
        except refusal as e:
            check(refuse and type(e) is type(excA) and str(e) == str(excA),
                  "refusal-differs-from-explicit-call", "%s / %s" % (excA, e),
                  **where)
        except Violation:
            raise
        except Exception as e:
            raise Violation("twin-failed", "%s: %s" % (type(e).__name__, e),
                            **where)
        dgB = sent(B, markB)
        ctx.hit("twin_compared")
        if dgA != dgB and visible_p is not None and family != "mem" and \
                len(dgA) == len(dgB):
            # same traffic except that helper commands written for core 0
            # were addressed to the core number found in the context?
            def recpu(d, cpu):
                q = simnet.parse_scp(d)
                return d[:4] + bytes([(q["dest_port"] << 5) | cpu]) + d[5:]
            leaked = [i for i, (a, b) in enumerate(zip(dgA, dgB)) if a != b]
            if all(simnet.parse_scp(dgA[i])["dest_cpu"] == visible_p and
                   simnet.parse_scp(dgB[i])["dest_cpu"] == 0 and
                   recpu(dgA[i], 0) == dgB[i] for i in leaked):
                ctx.finding(
                    "context-core-leaks-into-helper-commands", KF_LEAK,
                    "%s with p=%d in the enclosing context sends %d of %d "
                    "commands to core %d; the same call with explicit "
                    "arguments sends them to core 0" %
                    (name, visible_p, len(leaked), len(dgA), visible_p),
                    **where)
                ctx.mark_nontrivial()
                return
        check(dgA == dgB, "datagrams-differ-from-explicit-call",
              "%d vs %d datagrams; first difference at #%s: %r / %r" %
              (len(dgA), len(dgB),
               next((i for i, (a, b) in enumerate(zip(dgA, dgB)) if a != b),
                    "len"),
               dests(dgA)[:3], dests(dgB)[:3]), **where)
        check(dgA, "no-datagram", "", **where)
        absolute(name, family, cargs, resolved, dests(dgA), where, refuse)
        if used_ctx:
            ctx.mark_nontrivial()
    finally:
        shutil.rmtree(tmp, ignore_errors=True)


def absolute(name, family, cargs, R, ds, where, refused=False):
    x, y = R.get("x"), R.get("y")
    if family in ("mem",):
        want = (x, y, R["p"])
        check(all(d[0] == want for d in ds), "wrong-destination",
              "datagrams to %r, resolved target %r" %
              (sorted({d[0] for d in ds}), want), **where)
    elif family in ("chip0", "link", "vcpu", "app-chip"):
        check(all(d[0] == (x, y, 0) for d in ds), "wrong-destination",
              "datagrams to %r, resolved chip %r" %
              (sorted({d[0] for d in ds}), (x, y)), **where)
        if family == "vcpu":
            p = R["p"]
            a = ds[-1][2][0]
            lo = M.VCPU_BASE + 128 * p
            ok = lo <= a < lo + 128 or name.startswith("get_iobuf")
            if name.startswith("get_iobuf"):
                ok = any(lo <= d[2][0] < lo + 128 for d in ds)
            check(ok, "wrong-core-block",
                  "address %#x is not inside core %d's block" % (a, p),
                  **where)
        if family == "link":
            check(all(d[2][2] == R["link"] for d in ds), "wrong-link",
                  repr([d[2][2] for d in ds]), **where)
        if family == "app-chip":
            allocs = [d for d in ds if d[1] == M.CMD["alloc"]]
            check(allocs and all((d[2][0] >> 8) & 0xff == R["app_id"]
                                 for d in allocs), "wrong-app-id",
                  "alloc arg1 %r, app id %d" %
                  ([hex(d[2][0]) for d in allocs], R["app_id"]), **where)
            for d in ds:
                if d[1] == M.CMD["router"]:
                    check((d[2][0] >> 8) & 0xff == R["app_id"],
                          "wrong-app-id", "router load arg1 %#x" % d[2][0],
                          **where)
    elif family == "sver":
        check(ds[0][0] == (x, y, R["processor"]), "wrong-destination",
              "%r vs %r" % (ds[0][0], (x, y, R["processor"])), **where)
    elif family == "first-chip0":
        check(ds[0][0] == (x, y, 0), "wrong-destination",
              "first datagram to %r, resolved %r" % (ds[0][0], (x, y)),
              **where)
    elif family == "app-global":
        app = R["app_id"]
        sig = [d for d in ds if d[1] == M.CMD["signal"]]
        ffe = [d for d in ds if d[1] == M.CMD["nnp"] and d[2][0] >> 24 == 15]
        check(all(d[0] == (255, 255, 0) for d in sig + ffe),
              "wrong-destination", repr([d[0] for d in sig + ffe]), **where)
        check(sig or ffe, "no-app-command", "", **where)
        check(all(d[2][1] & 0xff == app for d in sig) and
              all(d[2][1] >> 24 == app for d in ffe), "wrong-app-id",
              "signals %r fills %r app id %d" %
              ([hex(d[2][1]) for d in sig], [hex(d[2][1]) for d in ffe], app),
              **where)
    elif family == "app-tables":
        allocs = [d for d in ds if d[1] == M.CMD["alloc"]]
        chips = {d[0] for d in allocs}
        check((chips == {(1, 1, 0), (0, 2, 0)} or
               (refused and chips and chips < {(1, 1, 0), (0, 2, 0)})) and
              all((d[2][0] >> 8) & 0xff == R["app_id"] for d in allocs),
              "wrong-app-id-or-chip", repr(allocs), **where)


def run_application(ctx, A, context, R, where):
    app = R["app_id"]
    # the block is left normally, by an arbitrary exception, by an error the
    # machine reports for a command of the block (a chip that does not
    # exist), and normally while an earlier machine error is being handled
    for raising in (False, True, "machine-error", "while-handling",
                    "interrupt-body", "interrupt-exit"):
        mark = len(A.net.log)
        before = A.mc.get_context_arguments()
        try:
            if raising == "interrupt-exit":
                # the user interrupts the program (Ctrl-C) while the block's
                # own stop signal is on its way: the block is left by that
                # exception, and is left all the same
                def plan(net, sock, data, n, plan0=A.net.plan):
                    req = simnet.parse_scp(data)
                    a2 = struct.unpack_from("<2I", req["body"] + b"\0" * 8)[1]
                    if req["cmd"] == M.CMD["signal"] and \
                            (a2 >> 16) & 0xff == 2:
                        raise KeyboardInterrupt()
                    return plan0(net, sock, data, n) if plan0 else \
                        [("ok", 0.0)]
                plan0_ = A.net.plan
                A.net.plan = plan
                try:
                    with A.mc.application(app):
                        inside = A.mc.get_context_arguments()
                        A.mc.send_signal("pause")
                finally:
                    A.net.plan = plan0_
            elif raising == "while-handling":
                try:
                    A.mc.read(0x60000000, 4, 9, 9, 0)
                except A.sc.SCPError:
                    mark = len(A.net.log)
                    with A.mc.application(app):
                        inside = A.mc.get_context_arguments()
                        A.mc.send_signal("pause")
            else:
                with (context if not raising else A.mc.application(app)):
                    inside = A.mc.get_context_arguments()
                    A.mc.send_signal("pause")
                    if raising == "machine-error":
                        mark2 = len(A.net.log)
                        try:
                            A.mc.read(0x60000000, 4, 9, 9, 0)
                        finally:
                            # the refused read is not part of the judgement
                            del A.net.log[mark2:]
                    if raising == "interrupt-body":
                        raise KeyboardInterrupt()
                    if raising:
                        raise KeyError("boom")
        except (KeyError, A.sc.SCPError):
            pass
        except KeyboardInterrupt:
            ctx.hit("block_left_by_interrupt")
        ctx.hit("application_stop_signal")
        check(inside.get("app_id") == app, "application-context",
              repr(inside), **where)
        ds = dests(sent(A, mark))
        sig = [(d[2][1] >> 16) & 0xff for d in ds if d[1] == M.CMD["signal"]]
        apps = [d[2][1] & 0xff for d in ds if d[1] == M.CMD["signal"]]
        check(sig == [6, 2] and apps == [app, app], "stop-signal-on-exit",
              "signals sent %r for apps %r (expected pause then stop for "
              "app %d), raising=%r" % (sig, apps, app, raising), **where)
        check(A.mc.get_context_arguments() == before,
              "context-not-restored", "after application block", **where)
    # ONE application-context object kept by the caller and used for several
    # blocks, one after the other (the second one left by an exception)
    kept = A.mc.application(app)
    for rep in range(3):
        mark = len(A.net.log)
        before = A.mc.get_context_arguments()
        try:
            with kept:
                inside = A.mc.get_context_arguments()
                A.mc.send_signal("pause")
                if rep == 1:
                    raise KeyError("boom")
        except KeyError:
            pass
        ctx.hit("application_object_reused")
        ds = dests(sent(A, mark))
        sig = [(d[2][1] >> 16) & 0xff for d in ds if d[1] == M.CMD["signal"]]
        apps = [d[2][1] & 0xff for d in ds if d[1] == M.CMD["signal"]]
        check(inside.get("app_id") == app and sig == [6, 2] and
              apps == [app, app], "stop-signal-on-exit",
              "block %d of a re-used application context: inside %r, signals "
              "sent %r for apps %r (expected pause then stop for app %d)" %
              (rep + 1, inside, sig, apps, app), **where)
        check(A.mc.get_context_arguments() == before,
              "context-not-restored", "after a re-used application block",
              **where)
    ctx.mark_nontrivial()


# ------------------------------------------------------------- nesting
def run_nesting(case, ctx):
    r = fresh(1)
    mc = r.mc

    class Boom(Exception):
        pass
    model = [dict(mc.get_context_arguments())]     # stack of dicts
    pool = []       # (context object, its model dict): may be re-entered
    hook_failures = []

    def merged():
        out = {}
        for d in model:
            out.update(d)
        return out

    def probe():
        ctx.hit("stack_restored")
        check(mc.get_context_arguments() == merged(), "context-arguments",
              "controller has %r, model %r" % (mc.get_context_arguments(),
                                               merged()), ops=case["ops"])
        m_ = merged()
        if all(k in m_ for k in ("x", "y", "p")):
            mark = len(r.net.log)
            mc.read(0x60000000, 4)
            d = dests(sent(r, mark))
            check(d and d[0][0] == (m_["x"], m_["y"], m_["p"]),
                  "wrong-destination", "%r vs %r" % (d[:1], m_),
                  ops=case["ops"])

    def enter(i):
        """run ops[i:] inside the current python context nesting; returns the
        index to continue from after leaving"""
        while i < len(case["ops"]):
            op = case["ops"][i]
            i += 1
            if op[0] in ("enter", "reenter"):
                if op[0] == "reenter" and not pool:
                    continue
                if op[0] == "reenter":
                    c, d = pool[op[1] % len(pool)]
                else:
                    c = mc.application(op[1].get("app_id", 66)) if op[2] \
                        else mc(**op[1])
                    d = dict(op[1]) if not op[2] else \
                        {"app_id": op[1].get("app_id", 66)}
                    pool.append((c, d))
                    if not op[2] and len(pool) % 3 == 0 and \
                            hasattr(c, "before_close"):
                        # the block's owner registers clean-up work to be
                        # done "before this context is exited": its commands
                        # still go where the block says
                        def hook():
                            m_ = merged()
                            if all(k in m_ for k in ("x", "y", "p")):
                                mark = len(r.net.log)
                                mc.read(0x60000000, 4)
                                d_ = dests(sent(r, mark))
                                ctx.hit("command_from_before_close_hook")
                                if not d_ or d_[0][0] != (m_["x"], m_["y"],
                                                          m_["p"]):
                                    hook_failures.append((d_[:1], m_))
                        c.before_close(hook)
                # ops may say where to look (5-tuple enter / 4-tuple
                # reenter); older forms look everywhere
                if op[0] == "enter":
                    p_in, p_out = (op[3], op[4]) if len(op) > 3 else (1, 1)
                else:
                    p_in, p_out = (op[2], op[3]) if len(op) > 2 else (1, 1)
                depth_before = len(model)
                model.append(d)
                try:
                    with c:
                        if p_in:
                            probe()
                        i = enter(i)
                finally:
                    del model[depth_before:]
                check(not hook_failures, "wrong-destination",
                      "a command issued from a before_close function of the "
                      "block went to %r; in force: %r" %
                      (hook_failures[0] if hook_failures else (None, None)),
                      ops=case["ops"])
                if p_out:
                    probe()
            elif op[0] == "exit":
                if len(model) > 1:
                    return i
            elif op[0] == "raise":
                if len(model) > 1:
                    raise Boom(op[1], i)
            elif op[0] == "update":
                mc.update_current_context(**op[1])
                model[-1].update(op[1])
                probe()
            else:
                probe()
        return i
    i = 0
    while i < len(case["ops"]):
        try:
            i = enter(i)
        except Boom as b:
            ctx.hit("exception_exit")
            i = b.args[1]
            check(len(model) == 1, "oracle", "model stack")
            probe()
    probe()
    ctx.mark_nontrivial()


# what the machine means by each number (sark.h / spinnaker_tools), written
# out here: the caller names signals, states and LED actions by NAME
SIGNALS = dict(init=0, power_down=1, stop=2, start=3, sync0=4, sync1=5,
               pause=6, cont=7, exit=8, timer=9, usr0=10, usr1=11, usr2=12,
               usr3=13)
NN_SIGNALS = {"init", "power_down", "stop", "start", "exit"}   # others: MC
STATES = dict(dead=0, power_down=1, runtime_exception=2, watchdog=3, init=4,
              wait=5, c_main=6, run=7, sync0=8, sync1=9, pause=10, exit=11,
              idle=15)


def run_vocabulary(case, ctx):
    r = fresh(case["seed"])
    mc, app = r.mc, case["app"]
    consts = importlib.import_module("rig.machine_control.consts")
    for name, code in sorted(SIGNALS.items()):
        for how in (name, getattr(consts.AppSignal, name, None), code):
            if how is None:
                check(False, "vocabulary", "no signal called %r" % name)
            mark = len(r.net.log)
            mc.send_signal(how, app_id=app)
            d = [q for q in dests(sent(r, mark)) if q[1] == M.CMD["signal"]]
            ctx.hit("signal_by_name")
            check(len(d) == 1 and d[0][0] == (255, 255, 0) and
                  d[0][2][0] == (2 if name in NN_SIGNALS else 0) and
                  (d[0][2][1] >> 16) & 0xff == code and
                  d[0][2][1] & 0xffff == 0xff00 | app,
                  "signal-on-the-wire",
                  "send_signal(%r, app_id=%d) sent %r; signal %r is number "
                  "%d, carried by message type %d" %
                  (how, app, [(q[0], [hex(a) for a in q[2]]) for q in d],
                   name, code, 2 if name in NN_SIGNALS else 0))
    for name, code in sorted(STATES.items()):
        for how in (name, getattr(consts.AppState, name, None)):
            if how is None:
                check(False, "vocabulary", "no state called %r" % name)
            mark = len(r.net.log)
            mc.count_cores_in_state(how, app_id=app)
            d = [q for q in dests(sent(r, mark)) if q[1] == M.CMD["signal"]]
            ctx.hit("state_by_name")
            check(len(d) == 1 and (d[0][2][1] >> 16) & 0xf == code and
                  (d[0][2][1] >> 20) & 3 == 2 and
                  d[0][2][1] & 0xffff == 0xff00 | app,
                  "state-on-the-wire",
                  "count_cores_in_state(%r, app_id=%d) sent %r; state %r is "
                  "number %d" % (how, app, [[hex(a) for a in q[2]]
                                            for q in d], name, code))
    for action, code in ((True, 3), (False, 2), (None, 1)):
        for led in range(4):
            mark = len(r.net.log)
            mc.set_led(led, action, x=1, y=2)
            d = [q for q in dests(sent(r, mark)) if q[1] == M.CMD["led"]]
            ctx.hit("led_action")
            check(len(d) == 1 and d[0][0] == (1, 2, 0) and
                  d[0][2][0] == code << (2 * led), "led-on-the-wire",
                  "set_led(%d, %r) sent %r (on=3, off=2, toggle=1, two bits "
                  "per LED)" % (led, action, [[hex(a) for a in q[2]]
                                              for q in d]))
    ctx.mark_nontrivial()


def run_siblings(case, ctx):
    """Several controller objects in one process (an application talking to
    its machine through two of them, or to two machines): what one of them
    is told about defaults - at the bottom of its stack with
    update_current_context, in a block, through application() - is nothing
    the others know."""
    r = fresh(case["seed"])
    mk = lambda: r.mcm.MachineController("eth-root", n_tries=5, timeout=0.5)
    a = r.mc
    b = mk() if case["order"] & 1 else None       # a sibling born before ...
    base = dict(a.get_context_arguments())
    told = dict(case["a"])
    if case["app"] is not None:
        told["app_id"] = case["app"]
    a.update_current_context(**told)
    if b is None:
        b = mk()                                   # ... or after the telling
    c = mk()
    where = dict(told=told, order=case["order"])
    for name, other in (("sibling", b), ("later sibling", c)):
        ctx.hit("sibling_controller")
        check(other.get_context_arguments() == base, "context-shared",
              "%s controller has context %r after ANOTHER controller was "
              "told %r" % (name, other.get_context_arguments(), told),
              **where)
        bx, by = case["b"]
        mark = len(r.net.log)
        other.read(0x60000000, 4, x=bx, y=by)
        # (a new controller first asks the machine for its buffer size)
        d = [q for q in dests(sent(r, mark)) if q[1] == M.CMD["read"]]
        check(d and all(q[0] == (bx, by, 0) for q in d), "wrong-destination",
              "%s controller's read(x=%d, y=%d) went to %r" %
              (name, bx, by, [q[0] for q in d][:2]), **where)
        try:
            other.read(0x60000000, 4)
        except TypeError:
            pass
        else:
            check(False, "missing-argument-accepted",
                  "%s controller read without x and y (another controller "
                  "was told %r)" % (name, told), **where)
    # and the one that was told still knows
    mark = len(r.net.log)
    a.read(0x60000000, 4)
    d = [q for q in dests(sent(r, mark)) if q[1] == M.CMD["read"]]
    check(d and d[0][0] == (told["x"], told["y"], told["p"]),
          "wrong-destination", "the told controller's read went to %r" %
          (d[:1],), **where)
    if case["order"] & 2:
        with b(x=2, y=2, p=9), c.application(88):
            check(a.get_context_arguments() ==
                  dict(base, **told), "context-shared",
                  "blocks entered on siblings changed the first controller's "
                  "context to %r" % (a.get_context_arguments(),), **where)
    ctx.mark_nontrivial()


def run_deep(case, ctx):
    import contextlib
    import random
    r = fresh(1)
    mc = r.mc
    rng = random.Random(case["seed"])
    model = [dict(mc.get_context_arguments())]

    def merged():
        out = {}
        for d in model:
            out.update(d)
        return out

    def look(where):
        ctx.hit("deep_nesting_probe")
        m_ = merged()
        check(mc.get_context_arguments() == m_, "context-arguments",
              "%s: controller has %r, model %r" %
              (where, mc.get_context_arguments(), m_), depth=len(model) - 1)
        if all(k in m_ for k in ("x", "y", "p")):
            mark = len(r.net.log)
            mc.read(0x60000000, 4)
            d = dests(sent(r, mark))
            check(d and d[0][0] == (m_["x"], m_["y"], m_["p"]),
                  "wrong-destination", "%s: %r vs %r" % (where, d[:1], m_),
                  depth=len(model) - 1)

    class Boom(Exception):
        pass
    try:
        with contextlib.ExitStack() as stack:
            for i in range(case["depth"]):
                # the outermost blocks name what the inner ones leave alone
                if i == 0:
                    args = dict(x=rng.randrange(3), y=rng.randrange(3),
                                p=rng.randrange(1, 17), app_id=77)
                else:
                    args = {a: rng.randrange(3) if a in "xy" else
                            rng.randrange(1, 17)
                            for a in rng.sample(["x", "y", "p"],
                                                rng.randint(0, 1))}
                stack.enter_context(mc(**args))
                model.append(args)
                if i in (0, 254, 255, 256, case["depth"] - 1) or \
                        rng.random() < .02:
                    look("%d blocks open" % (i + 1))
                if case["raise_at"] == i:
                    raise Boom()
    except Boom:
        ctx.hit("exception_exit")
    except Exception as e:
        raise Violation("unexpected-exception", "leaving %d nested blocks: "
                        "%s: %s" % (len(model) - 1, type(e).__name__, e))
    del model[1:]
    look("all blocks left")
    ctx.mark_nontrivial()


# --------------------------------------------------------- connections
def run_connections(case, ctx):
    w, h, root = case["w"], case["h"], tuple(case["root"])
    m = M.Machine(w, h, root=root)
    torus = w % 12 == 0 and h % 12 == 0
    eths = []
    for ex, ey in c19.ETH:
        for i in range(-1, w // 12 + 2):
            for j in range(-1, h // 12 + 2):
                px, py = root[0] + ex + 12 * i, root[1] + ey + 12 * j
                if torus:
                    eths.append((px % w, py % h))
                elif 0 <= px < w and 0 <= py < h:
                    eths.append((px, py))
    eths = sorted(set(eths))
    ips = {}
    for k, xy in enumerate(eths):
        c = m.chips[xy]
        c.eth_up = k not in case["down"] or xy == root
        c.ip = (10 | (k + 1) << 24 | xy[0] << 8 | xy[1] << 16)
        ips[xy] = ".".join(str((c.ip >> s) & 0xff) for s in (0, 8, 16, 24))
    replug = (w // 4 + root[0] + len(case["down"]) +
              len(case["targets"][0:1] and [case["targets"][0][0]])) % 2 == 0
    for xy, c in m.chips.items():
        (e, _) = c19.board_of(xy[0], xy[1], root[0], root[1])
        c.local_eth = (e[0] % w, e[1] % h)
        if replug and c.local_eth in m.chips and \
                not m.chips[c.local_eth].eth_up:
            # a board whose cable was not plugged in when the machine
            # booted: its chips adopted another board's Ethernet chip
            # ("may not literally be the nearest Ethernet connected chip")
            c.local_eth = root
    m.finalise()
    tries = 2 + (w // 4 + root[0]) % 4
    tmo = [0.5, 0.11, 1.3][(h // 4 + root[1] // 4) % 3]
    r = M.Rig(m, n_tries=tries, timeout=tmo)
    cut = set()
    for k, xy in enumerate(eths):
        if k in case.get("unreachable", []) and xy != root:
            cut.add(xy)     # Ethernet up on the chip, but no route from here
    for xy, ip in ips.items():
        if xy not in cut:
            m.attach(r.net, ip, xy)
    mc = r.mc
    # the chip asked for the list of live chips is the caller's choice (by
    # argument or from an enclosing block); it is not the machine's root
    qx, qy = case["targets"][0] if case["targets"] else (0, 0)
    qx, qy = qx % w, qy % h
    form = (qx * 7 + qy * 3 + w // 4 + root[1] // 4) % 4
    if form == 1:
        ctx.hit("discovery_from_a_named_chip")
        n = mc.discover_connections(qx, qy)
    elif form == 2:
        ctx.hit("discovery_from_a_named_chip")
        with mc(x=qx, y=qy):
            n = mc.discover_connections()
    elif form == 3:
        n = mc.discover_connections(y=255, x=255)
        check(mc.discover_connections() == 0, "connections-discovered",
              "a second discovery reports new connections")
    else:
        n = mc.discover_connections()
    up = {xy for xy in eths if m.chips[xy].eth_up and xy not in cut}
    check(set(k for k in mc.connections if k is not None) == up - (
        set() if True else set()), "connections-discovered",
        "controller has %r, Ethernet-connected chips %r" %
        (sorted(k for k in mc.connections if k is not None), sorted(up)))
    def judge_targets(targets, note=""):
        for (x, y) in targets:
            x, y = x % w, y % h
            mark = len(m.arrivals)
            mc.read(0x60000000, 4, x, y, 0)
            host = m.arrivals[mark][0]
            (e, _) = c19.board_of(x, y, root[0], root[1])
            e = (e[0] % w, e[1] % h) if torus else e
            want = ips[e] if e in up else "eth-root"
            ctx.hit("connection_choice")
            check(host == want, "wrong-connection",
                  "command for chip %r left through %r; its board's Ethernet "
                  "chip is %r (%s)%s" % ((x, y), host, e,
                                         "connected as %s" % ips.get(e)
                                         if e in up else "not connected",
                                         note),
                  dims=(w, h), root=root)
    judge_targets(case["targets"])
    late = [xy for xy in eths if not m.chips[xy].eth_up and xy not in cut]
    if replug and late:
        # the application surveys the machine, somebody plugs the missing
        # cables in, discovery is run again ("existing connections will be
        # retained"): commands for those boards now have a connection of
        # their own
        if (w + h) // 4 % 2:
            mc.get_system_info()
        for xy in late:
            m.chips[xy].eth_up = True
        m.finalise()
        if not (w + h) // 4 % 2:
            mc.get_system_info()
        n2 = mc.discover_connections()
        ctx.hit("cable_plugged_in_later")
        check(n2 == len(late), "connections-discovered",
              "%d boards were connected after the first discovery; the "
              "second discovery reports %d new connections" % (len(late), n2))
        up |= set(late)
        on_late = [(xy[0] + dx, xy[1] + dy) for xy in late
                   for dx, dy in ((0, 0), (1, 1), (3, 2), (4, 7))
                   if (xy[0] + dx, xy[1] + dy) in m.chips]
        judge_targets(on_late + case["targets"][:4],
                      " (its cable was plugged in after the first discovery "
                      "and a survey of the machine)")
    # the connections found by discovery belong to THIS controller: they
    # give up after its number of tries, spaced by its timeout
    for (x, y) in case["targets"][:3]:
        x, y = x % w, y % h
        r.net.plan = lambda net, sock, data, n: [("lost",)]
        mark = len(r.net.log)
        try:
            mc.read(0x60000000, 4, x, y, 0)
            check(False, "oracle", "a silent machine answered")
        except r.sc.SCPError:
            pass
        finally:
            r.net.plan = None
        times = [e[1] for e in r.net.log[mark:] if e[0] == "send"]
        ctx.hit("discovered_connection_tries")
        check(len(times) == tries and
              all(b - a >= tmo - 1e-6 for a, b in zip(times, times[1:])),
              "discovered-connection-ignores-controller-settings",
              "an unanswered command for chip %r was sent %d times %r apart; "
              "the controller was made with n_tries=%d, timeout=%r" %
              ((x, y), len(times),
               [round(b - a, 3) for a, b in zip(times, times[1:])], tries,
               tmo), dims=(w, h), root=root)
    if len(up) >= 2:
        ctx.mark_nontrivial()


# ------------------------------------------------------------------ BMP
def run_bmp(case, ctx):
    import random
    sc = importlib.import_module("rig.machine_control.scp_connection")
    bm = importlib.import_module("rig.machine_control.bmp_controller")
    net = simnet.Net()
    seen = []

    def handler(sock, addr, data):
        q = simnet.parse_scp(data)
        seen.append((addr[0], q))
        cmd = q["cmd"]
        if cmd == 0:
            return simnet.make_reply(q, 0x80, (q["dest_cpu"], 0xffff << 16 |
                                               256, 1), b"BC&MP/Spin5-BMP\0"
                                     b"2.0.0\0")
        if cmd == 48:
            return simnet.make_reply(q, 0x80, (), struct.pack(
                "<8H12hII", *range(22)))
        if cmd == 17:
            return simnet.make_reply(q, 0x80, (), struct.pack("<I", 0xbeef))
        return simnet.make_reply(q, 0x80)
    net.default_handler = handler
    net.bind(sc, bm)
    hosts = {tuple(c): "bmp-" + "-".join(map(str, c)) for c in case["conns"]}
    if [tuple(c) for c in case["conns"]] == [(0, 0)] and case["seed"] % 2:
        # one frame only: the host may be given as a plain name, which
        # stands for cabinet 0, frame 0
        ctx.hit("bmp_host_given_as_name")
        bc = bm.BMPController("bmp-0-0")
    else:
        bc = bm.BMPController(hosts)
    rng = random.Random(case["seed"])
    name = case["method"]
    build, family = BMP_METHODS[name]
    base = build(rng)
    cab, frm = [c for c in case["conns"]][0][:2]
    board = case["board"]
    boards = list(board) if isinstance(board, list) else [board]
    form = case.get("board_form", "list")
    if isinstance(board, list) and form != "list":
        ctx.hit("board_given_as_one_shot_iterable" if form != "tuple"
                else "board_given_as_tuple")
        board = {"gen": lambda: (b for b in boards),
                 "iter": lambda: iter(list(boards)),
                 "tuple": lambda: tuple(boards)}[form]()
    R = dict(cabinet=cab, frame=frm, board=board)
    decoy = dict(cabinet=cab, frame=frm, board=(boards[0] + 1) % 8)
    board1 = boards[0]
    cargs = ["cabinet", "frame", "board"]
    plan_ = case["plan"]
    stack0 = bc.get_context_arguments()
    args, kw, ctxs, missing = list(base), {}, [], None
    if plan_ in ("all_kw", "default") or (plan_ == "positional" and
                                          name in BMP_KWONLY):
        kw = dict(R)
        if plan_ == "default" and (cab, frm) == (0, 0):
            kw = dict(board=board)      # cabinet/frame from initial context
    elif plan_ == "positional":
        args += [R[a] for a in cargs]
    elif plan_ == "ctx_inner":
        ctxs = [decoy, R]
    elif plan_ == "ctx_split":
        ctxs = [dict(cabinet=cab, frame=frm, board=decoy["board"]),
                dict(board=board)]
    elif plan_ == "ctx_overridden":
        ctxs = [decoy]
        kw = dict(R)
    else:
        # the initial context provides all three: remove it to test rejection
        bc = bm.BMPController(hosts, initial_context={})
        stack0 = bc.get_context_arguments()
        kw = dict(cabinet=cab, frame=frm)
        missing = "board"
    meth = getattr(bc, name)
    where = dict(method="bmp." + name, plan=plan_,
                 resolved=dict(R, board=case["board"]), board_form=form,
                 connections=case["conns"])

    def go():
        if not ctxs:
            return meth(*args, **kw)
        with bc(**ctxs[0]):
            if len(ctxs) == 1:
                return meth(*args, **kw)
            with bc(**ctxs[1]):
                return meth(*args, **kw)
    try:
        go()
        exc = None
    except TypeError as e:
        exc = e
    except Exception as e:
        raise Violation("unexpected-exception", "%s: %s" %
                        (type(e).__name__, e), **where)
    ctx.hit("bmp_call_checked")
    check(bc.get_context_arguments() == stack0, "context-not-restored", "",
          **where)
    if missing:
        ctx.hit("missing_argument_rejected")
        check(isinstance(exc, TypeError) and not seen,
              "missing-argument-accepted", "%r, %d datagrams" %
              (exc, len(seen)), **where)
        ctx.mark_nontrivial()
        return
    check(exc is None and seen, "call-rejected", repr(exc), **where)
    cboard = 0 if family == "power" else board1
    want_host = hosts.get((cab, frm, cboard), hosts.get((cab, frm)))
    main = seen[-1]
    for host, q in seen:
        check(host == want_host, "wrong-connection",
              "sent through %s, expected %s" % (host, want_host), **where)
    q = main[1]
    exp_board = 0 if family == "power" else board1
    check((q["dest_x"], q["dest_y"], q["dest_cpu"]) == (0, 0, exp_board),
          "wrong-destination", "%r, board %d" %
          ((q["dest_x"], q["dest_y"], q["dest_cpu"]), exp_board), **where)
    a = struct.unpack_from("<3I", q["body"] + b"\0" * 12)
    if family == "power" or name == "set_led":
        check(a[1] == sum(1 << b for b in boards), "wrong-board-mask",
              "%#x for boards %r" % (a[1], boards), **where)
    if ctxs or plan_ == "default":
        ctx.mark_nontrivial()


def run_inventory(ctx):
    mcm = importlib.import_module("rig.machine_control.machine_controller")
    bm = importlib.import_module("rig.machine_control.bmp_controller")
    found = {n for n, f in vars(mcm.MachineController).items()
             if callable(f) and hasattr(f, "__wrapped__")}
    foundb = {n for n, f in vars(bm.BMPController).items()
              if callable(f) and hasattr(f, "__wrapped__")}
    ctx.count("decorated_machine_methods", len(found))
    ctx.count("decorated_board_methods", len(foundb))
    ctx.count("machine_methods_not_in_table",
              len(found - {n.split("+")[0] for n in MC_METHODS}))
    ctx.count("board_methods_not_in_table", len(foundb - set(BMP_METHODS)))
    ctx.note(dict(not_covered=sorted(found - set(MC_METHODS)) +
                  sorted(foundb - set(BMP_METHODS)),
                  table_entries_missing_in_rig=sorted(set(MC_METHODS) -
                                                      found)))
    ctx.mark_nontrivial()


def run(case, ctx):
    k = case["kind"]
    if k == "mc":
        if not hasattr(importlib.import_module(
                "rig.machine_control.machine_controller").MachineController,
                case["method"].split("+")[0]):
            return "method-absent"
        run_mc(case, ctx)
    elif k == "nesting":
        run_nesting(case, ctx)
    elif k == "deep":
        run_deep(case, ctx)
    elif k == "siblings":
        run_siblings(case, ctx)
    elif k == "vocabulary":
        run_vocabulary(case, ctx)
    elif k == "connections":
        run_connections(case, ctx)
    elif k == "bmp":
        run_bmp(case, ctx)
    else:
        run_inventory(ctx)
    return "ok"
