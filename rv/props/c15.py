"""C15 - SDP and SCP packets encode to the wire layout and decode back.

Oracle: an independent byte-level packer written from the documented layout
(2 padding bytes, flags 0x87/0x07, tag, dest port<<5|cpu, src port<<5|cpu,
dest y, dest x, src y, src x; SCP: cmd_rc u16le, seq u16le, present arguments
u32le, payload) and the argument-count rule min(allowed, floor(len/4))."""
from ..core import check

ID = "C15"
IMPORTS = ['rig.machine_control.packets']
LEVEL = "exploration"
TECHNIQUE = ("runtime post-condition monitor: byte-for-byte comparison with "
             "an independent packer, decode/re-encode round trip")
LEVEL_TEXT = ("Every generated packet (boundary values of each field over its "
              "full width, single-bit walks, random values, 0-3 arguments, "
              "payload lengths 0-40 and large) is encoded by the real code and "
              "compared byte for byte with an independent packer, then decoded "
              "with every allowed argument count and compared field by field; "
              "randomised exploration with systematic boundary classes.")
LEVEL_NOTE = "Trusted: the harness's packer (documented layout)."
RULE = ("one case = one packet with its decode argument counts; non-trivial = "
        "the packet has at least one argument or a non-empty payload and at "
        "least one header field differs from zero; distinct by case")
ASSUMPTIONS = ["arguments are present as a prefix (arg1..argk); field values "
               "lie within their documented widths"]
FLOORS = {"defaults_left_out": 5000, "second_decode": 500, "edited_packet_encoded": 5000, "encode_compare": 1000, "decode_compare": 3000,
          "short_decode": 300}
SHARDS = {"quick": 16, "thorough": 48}

WIDTHS = dict(tag=8, dest_port=3, dest_cpu=5, src_port=3, src_cpu=5, dest_x=8,
              dest_y=8, src_x=8, src_y=8, cmd_rc=16, seq=16, arg1=32, arg2=32,
              arg3=32)
SDP_FIELDS = ["tag", "dest_port", "dest_cpu", "src_port", "src_cpu", "dest_x",
              "dest_y", "src_x", "src_y"]
CLASSES = ["sdp", "scp_random", "scp_boundary", "scp_bitwalk", "scp_short",
           "scp_bigpayload"]


def plan(tier):
    n = 8000 if tier == "quick" else 300000
    return [(c, n) for c in CLASSES]


def rval(rng, bits, mode):
    if mode == "random":
        return rng.getrandbits(bits)
    if mode == "boundary":
        return rng.choice([0, (1 << bits) - 1, 1, 1 << (bits - 1),
                           (1 << bits) - 2])
    return 0


def gen(cls, idx, rng, tier):
    mode = "boundary" if cls in ("scp_boundary",) else "random"
    if cls == "sdp" and idx % 3 == 0:
        mode = "boundary"
    f = {k: rval(rng, WIDTHS[k], mode) for k in SDP_FIELDS}
    f["reply_expected"] = rng.random() < 0.5
    plen = rng.choice([0, 0, 1, 2, 3, 4, 5, 7, 8, 11, 12, 13, 16, 20,
                       rng.randint(0, 40)])
    if cls == "scp_bigpayload":
        plen = rng.choice([255, 256, 257, 272, 1024, rng.randint(41, 1500)])
        if idx % 50 == 49:
            # "payloads of any length": around what a 16-bit length field
            # could hold, and well beyond
            plen = rng.choice([65499, 65509, 65521, 65525, 65526, 65535,
                               65536, 65537, 70001, 1 << 17])
    f["data"] = rng.randbytes(plen) if plen > 2000 else \
        bytes(rng.getrandbits(8) for _ in range(plen))
    if cls == "sdp":
        if idx % 200 == 199:
            f["data"] = rng.randbytes(rng.choice([65525, 65526, 65536,
                                                   70001]))
        return dict(kind="sdp", f=f)
    k = rng.randint(0, 3)
    f["cmd_rc"] = rval(rng, 16, mode)
    if cls == "scp_random" and idx % 4 == 0:
        # the values that mean something to the protocol (command numbers,
        # return codes 0x80..0x8f) one after another
        f["cmd_rc"] = (idx // 4) % 0x100
    f["seq"] = rval(rng, 16, mode)
    for i in range(1, 4):
        f["arg%d" % i] = rval(rng, 32, mode) if i <= k else None
    if cls == "scp_bitwalk":
        # one field has one bit set (or all ones), all other fields zero
        names = SDP_FIELDS + ["cmd_rc", "seq"] + ["arg%d" % i
                                                  for i in range(1, k + 1)]
        name = names[idx % len(names)]
        for n in names:
            f[n] = 0
        bit = rng.randrange(WIDTHS[name] + 1)
        f[name] = ((1 << WIDTHS[name]) - 1 if bit == WIDTHS[name]
                   else 1 << bit)
        f["walk"] = name
    if cls == "scp_short":
        # payloads that end inside the argument words, no args encoded
        for i in range(1, 4):
            f["arg%d" % i] = None
        plen = rng.randint(0, 13)
        f["data"] = bytes(rng.getrandbits(8) for _ in range(plen))
    return dict(kind="scp", f=f)


def short(v):
    r = repr(v)
    return r if len(r) < 90 else "%s... (%d bytes)" % (r[:80], len(v))


def brief(f):
    return {k: (v if not isinstance(v, bytes) or len(v) < 64 else
                "%d bytes starting %s" % (len(v), v[:16].hex()))
            for k, v in f.items()}


def pack_sdp(f, body):
    return (b"\0\0" + bytes([0x87 if f["reply_expected"] else 0x07, f["tag"],
                             f["dest_port"] << 5 | f["dest_cpu"],
                             f["src_port"] << 5 | f["src_cpu"], f["dest_y"],
                             f["dest_x"], f["src_y"], f["src_x"]]) + body)


DEFAULTS = dict(reply_expected=False, tag=0xff, src_port=7, src_cpu=31,
                src_x=0, src_y=0, data=b"", seq=0, arg1=None, arg2=None,
                arg3=None)      # as documented in the constructors


def run(case, ctx):
    import importlib
    P = importlib.import_module("rig.machine_control.packets")
    f = dict(case["f"])
    f.pop("walk", None)
    # a packet made with the documented defaults left out (what most callers
    # write), and one with every argument by position
    given = {k: v for k, v in f.items() if k not in DEFAULTS}
    full = dict(DEFAULTS, **given)
    if case["kind"] == "sdp":
        for k in ("seq", "arg1", "arg2", "arg3"):
            full.pop(k)
        lean = P.SDPPacket(**given)
        want_lean = pack_sdp(full, b"")
        order = ["reply_expected", "tag", "dest_port", "dest_cpu", "src_port",
                 "src_cpu", "dest_x", "dest_y", "src_x", "src_y", "data"]
        pos = P.SDPPacket(*[f[k] for k in order])
        want_pos = pack_sdp(f, f["data"])
    else:
        lean = P.SCPPacket(**given)
        want_lean = pack_sdp(full, given["cmd_rc"].to_bytes(2, "little") +
                             b"\0\0")
        order = ["reply_expected", "tag", "dest_port", "dest_cpu", "src_port",
                 "src_cpu", "dest_x", "dest_y", "src_x", "src_y", "cmd_rc",
                 "seq", "arg1", "arg2", "arg3", "data"]
        pos = P.SCPPacket(*[f[k] for k in order])
        want_pos = None
    ctx.hit("defaults_left_out")
    check(bytes(lean.bytestring) == want_lean, "constructor-defaults",
          "a packet made from %r alone encodes as %s, with the documented "
          "defaults it is %s" % (sorted(given), bytes(lean.bytestring).hex(),
                                 want_lean.hex()))
    for k, v in full.items():
        check(getattr(lean, k) == v, "constructor-defaults",
              "%s defaults to %r, documented %r" % (k, getattr(lean, k), v))
    for k in order:
        check(getattr(pos, k) == f[k], "constructor-argument-order",
              "argument %d (%s) given %r reads %r" %
              (order.index(k), k, f[k], getattr(pos, k)))
    if want_pos is not None:
        check(bytes(pos.bytestring) == want_pos, "sdp-encode",
              "by position: %s" % bytes(pos.bytestring).hex()[:80])
    if case["kind"] == "sdp":
        pkt = P.SDPPacket(**f)
        got = pkt.bytestring
        want = pack_sdp(f, f["data"])
        ctx.hit("encode_compare")
        check(bytes(got) == want, "sdp-encode", "got %s want %s" %
              (bytes(got).hex(), want.hex()), fields=f)
        back = P.SDPPacket.from_bytestring(want)
        ctx.hit("decode_compare")
        for k, v in f.items():
            g = getattr(back, k)
            check(g == v and (k != "reply_expected" or g is v),
                  "sdp-decode-field", "%s: got %s want %s" %
                  (k, short(g), short(v)), fields=brief(f))
        check(bytes(back.bytestring) == want, "sdp-reencode", "")
        # decoding something else afterwards leaves this packet alone
        f3 = dict(f, tag=f["tag"] ^ 0xff, dest_x=(f["dest_x"] + 1) & 0xff,
                  data=f["data"] + b"!")
        other = P.SDPPacket.from_bytestring(pack_sdp(f3, f3["data"]))
        ctx.hit("second_decode")
        check(other is not back, "decode-returns-shared-object", "")
        for k, v in f.items():
            check(getattr(back, k) == v, "decoded-packet-changed-later",
                  "%s was %r, is %r after another packet was decoded" %
                  (k, v, getattr(back, k)), fields=f)
        if f["data"] and any(f[k] for k in SDP_FIELDS):
            ctx.mark_nontrivial()
        return "ok"
    args = [f["arg1"], f["arg2"], f["arg3"]]
    k = sum(a is not None for a in args)
    body = (f["cmd_rc"].to_bytes(2, "little") + f["seq"].to_bytes(2, "little")
            + b"".join(a.to_bytes(4, "little") for a in args[:k]) + f["data"])
    want = pack_sdp(f, body)
    if f["seq"] % 4 == 1:
        # the application's previous packet was refused: a field that does
        # not fit its width (what is raised is the encoder's business; that
        # the next, valid packet is unaffected is not)
        bad = dict(f)
        bad[("arg1", "arg2", "arg3", "seq", "cmd_rc")[f["seq"] // 4 % 5]] = \
            (-1, 1 << 32, -(1 << 31) - 1)[f["seq"] // 20 % 3]
        if bad["arg1"] is None:
            bad["arg1"] = -1
        try:
            P.SCPPacket(**bad).bytestring
        except Exception:
            ctx.hit("previous_encode_refused")
    pkt = P.SCPPacket(**f)
    got = pkt.bytestring
    ctx.hit("encode_compare")
    check(bytes(got) == want, "scp-encode", "got %s want %s" %
          (bytes(got).hex()[:120], want.hex()[:120]), fields=f)
    rest = body[4:]
    for n in (0, 1, 2, 3):
        # (a received datagram may sit in a caller's reusable buffer: the
        # mutable kind of bytestring decodes the same and stays untouched)
        raw = want
        if (len(want) + n) % 4 == 1:
            raw = bytearray(want)
            ctx.hit("decoded_from_bytearray")
        back = P.SCPPacket.from_bytestring(raw, n_args=n)
        check(bytes(raw) == want, "decode-modified-its-input",
              "the buffer handed to from_bytestring changed")
        ctx.hit("decode_compare")
        if len(rest) < 12:
            ctx.hit("short_decode")
        take = min(n, len(rest) // 4, 3)
        exp = dict(f)
        for i in range(3):
            exp["arg%d" % (i + 1)] = (
                int.from_bytes(rest[4 * i:4 * i + 4], "little")
                if i < take else None)
        exp["data"] = rest[4 * take:]
        for name, v in exp.items():
            g = getattr(back, name)
            check(g == v and (v is not None or g is None), "scp-decode-field",
                  "n_args=%d %s: got %s want %s" % (n, name, short(g),
                                                    short(v)),
                  fields=brief(f))
        check(bytes(back.bytestring) == want, "scp-reencode",
              "n_args=%d" % n, fields=f)
        if n == k:
            for name in ("arg1", "arg2", "arg3", "data"):
                # decoding with the encoding's own argument count is the
                # identity whenever the payload does not leak into the args
                check(getattr(back, name) == f[name], "scp-roundtrip",
                      "%s: got %r want %r" % (name, getattr(back, name),
                                              f[name]), fields=f)
    # packets are plain mutable records: one that has been encoded (or
    # decoded) once, then edited, encodes to the layout of its NEW fields
    f2 = dict(f)
    f2["seq"] = (f["seq"] + 1) & 0xffff
    f2["tag"] = f["tag"] ^ 0x5a
    f2["dest_x"] = (f["dest_x"] + 3) & 0xff
    f2["data"] = f["data"][1:] + b"\x7e"
    if f["arg1"] is not None:
        f2["arg1"] = f["arg1"] ^ 0x80000001
    # ... and any other field, each alone or together (which ones: the
    # bits of the packet's own sequence number)
    edited = ["seq", "tag", "dest_x", "data", "arg1"]
    others = [n for n in SDP_FIELDS if n not in edited] + ["reply_expected",
                                                           "cmd_rc"]
    for i, name in enumerate(others):
        if f["seq"] >> i & 1 or f["seq"] % len(others) == i:
            edited.append(name)
            f2[name] = (not f[name]) if name == "reply_expected" else \
                (f[name] ^ (1 + (f["seq"] >> 3))) & \
                ((1 << WIDTHS.get(name, 16)) - 1)
    for victim in (pkt, P.SCPPacket.from_bytestring(want, n_args=k)):
        for name in edited:
            setattr(victim, name, f2[name])
        args2 = [f2["arg1"], f2["arg2"], f2["arg3"]]
        body2 = (f2["cmd_rc"].to_bytes(2, "little") +
                 f2["seq"].to_bytes(2, "little") +
                 b"".join(a.to_bytes(4, "little") for a in args2[:k]) +
                 f2["data"])
        ctx.hit("edited_packet_encoded")
        if victim is pkt or (getattr(victim, "arg1") == f2["arg1"] and
                             [getattr(victim, "arg%d" % i) is not None
                              for i in (1, 2, 3)] ==
                             [a is not None for a in args2]):
            check(bytes(victim.bytestring) == pack_sdp(f2, body2),
                  "scp-encode-after-edit",
                  "a packet encoded once and then edited still encodes as "
                  "%s, its fields now say %s" %
                  (bytes(victim.bytestring).hex()[:80],
                   pack_sdp(f2, body2).hex()[:80]), fields=f2)
    d = P.SCPPacket.from_bytestring(want)
    check((d.arg1, d.arg2, d.arg3) ==
          tuple(int.from_bytes(rest[4 * i:4 * i + 4], "little")
                if i < min(3, len(rest) // 4) else None for i in range(3)),
          "scp-default-nargs", "default n_args must be 3", fields=f)
    if (k or f["data"]) and any(f[n] for n in SDP_FIELDS + ["cmd_rc", "seq"]):
        ctx.mark_nontrivial()
    return "ok"
