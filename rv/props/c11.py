"""C11 - hexagonal mesh and torus path functions return true shortest paths.

Oracle: breadth-first search over the 6-neighbour graph (written here from the
link vectors E(1,0) NE(1,1) N(0,1) W(-1,0) SW(-1,-1) S(0,-1), not taken from
rig), compared against every function for every offset of every torus size in
the bound (exhaustive), plus mesh windows and hexagon rings."""
import collections
import random

from ..core import check, Violation

ID = "C11"
IMPORTS = ['rig.geometry', 'rig.place_and_route.route.utils']
LEVEL = "exploration"
TECHNIQUE = ("runtime post-condition monitor on return values vs BFS "
             "reference model, exhaustive enumeration of torus sizes/offsets")
LEVEL_TEXT = ("Every path/geometry function is run on every offset of every "
              "torus size in a stated bound (exhaustive inside the bound) and "
              "its return value is judged by an independent BFS; bounded "
              "exhaustive exploration is the right level for pure functions of "
              "small integer inputs whose failure modes are size/wrap "
              "specific."
              " Two further repetitions per pair run with the library's tie-breaks scripted to the ends of their ranges.")
LEVEL_NOTE = ("Trusted: the harness BFS over the six link vectors; sizes "
              "beyond the bound and coordinates beyond +-2000 are not "
              "explored.")
QUICK_MAX, THOROUGH_MAX = 16, 48
EXHAUSTIVE = {"quick": True, "thorough": True}
BOUND = {"quick": "all tori w,h in 1..%d, every destination offset, 2 sources, "
                  "3 xyz representations, 3 tie-break seeds; mesh offsets "
                  "|dx|,|dy|<=12; radii 0..12" % QUICK_MAX,
         "thorough": "all tori w,h in 1..%d (same product); mesh offsets "
                     "|dx|,|dy|<=24 + 20000 random far pairs; radii 0..24"
                     % THOROUGH_MAX}
RULE = ("one case = one torus size (all offsets enumerated), one mesh window "
        "or one hexagon radius; non-trivial = at least one destination is "
        "strictly closer through a wrap-around link than across the mesh "
        "(torus), or radius/offset > 0 (mesh, hexagon); distinct by case")
ASSUMPTIONS = [
    "reference distances come from BFS over the six link vectors written "
    "independently in the harness",
    "Links.from_vector on wrapped deltas is only required for w,h >= 3 "
    "(documented limitation for 2xN systems)",
]
FLOORS = {"extreme_tie_breaks": 5000, "ldf_one_sided_wrap": 5000, "mesh_huge_coordinates": 4, "torus_beyond_double_precision": 100, "torus_length": 1000, "torus_vector": 1000, "ldf_walk": 1000,
          "mesh": 500, "hexagon_ring": 5, "hexagon_abandoned_search": 5,
          "large_torus_pair": 3000,
          "links": 6}
SHARDS = {"quick": 16, "thorough": 64}
ANCHORS = [
    ("rig.geometry", "shortest_torus_path_length",
     {"wrap_x_taken": "length = wrap_x", "wrap_y_taken": "length = wrap_y",
      "wrap_xy_taken": "return wrap_xy"}),
    ("rig.geometry", "shortest_torus_path",
     {"spiral_x": "max_spirals = (x + height - 1 if x < 0 else x) // height",
      "spiral_y": "max_spirals = (y + width - 1 if y < 0 else y) // width"}),
]

VEC = [(1, 0), (1, 1), (0, 1), (-1, 0), (-1, -1), (0, -1)]  # link 0..5


def plan(tier):
    n = QUICK_MAX if tier == "quick" else THOROUGH_MAX
    return [("torus", n * n), ("mesh", 4 if tier == "quick" else 16),
            ("hexagon", 26 if tier == "quick" else 104),
            ("hexagon_big", 6 if tier == "quick" else 12), ("links", 1),
            ("large", 24 if tier == "quick" else 400)]


def gen(cls, idx, rng, tier):
    n = QUICK_MAX if tier == "quick" else THOROUGH_MAX
    if cls == "torus":
        return dict(kind="torus", w=idx // n + 1, h=idx % n + 1,
                    seed=rng.randrange(1 << 30))
    if cls == "mesh":
        r = 12 if tier == "quick" else 24
        return dict(kind="mesh", r=r, part=idx,
                    parts=4 if tier == "quick" else 16,
                    far=0 if tier == "quick" else 1250,
                    seed=rng.randrange(1 << 30))
    if cls == "large":
        if idx % 4 == 3:
            # sizes no double holds exactly (the functions are integer
            # arithmetic; nothing in them may depend on float precision)
            big = [(1 << 53) + 1, (1 << 60) + 7, 10 ** 18 + 3, (1 << 70) + 1]
            w = rng.choice(big + [1, 2, 5, rng.randint(3, 300)])
            h = rng.choice(big + ([3, 256] if w in big else []))
            return dict(kind="large", w=w, h=h, seed=rng.randrange(1 << 30))
        return dict(kind="large", w=rng.choice([rng.randint(49, 300),
                                                rng.randint(300, 5000), 1, 2,
                                                255, 256, 65536]),
                    h=rng.choice([rng.randint(49, 300),
                                  rng.randint(300, 5000), 3, 256, 65535]),
                    seed=rng.randrange(1 << 30))
    if cls == "hexagon_big":
        # "all radii": neighbourhoods of millions of chips, read to the end
        # (as deep as any fixed interpreter limit - recursion depth, small
        # integer caches - is likely to sit, and beyond)
        r = [256, 257, 300, 1000, rng.randint(1001, 1200), 999,
             1024, 1500, 2000, 2500, 3000, rng.randint(3000, 4000)][idx]
        return dict(kind="hexagon", r=r, abandon=0, big=True, stream=True,
                    start=(rng.randint(-20, 20), rng.randint(-20, 20)))
    if cls == "hexagon" and idx % 13 == 12:
        # radii beyond every small-number special case of the interpreter
        return dict(kind="hexagon", r=[256, 257, 300, 1000][idx // 13 % 4],
                    abandon=0, big=True,
                    start=(rng.randint(-20, 20), rng.randint(-20, 20)))
    if cls == "hexagon":
        return dict(kind="hexagon", r=idx // 2, abandon=idx % 2,
                    start=(rng.randint(-20, 20), rng.randint(-20, 20)))
    return dict(kind="links")


def bfs_torus(w, h):
    d = {(0, 0): 0}
    q = collections.deque([(0, 0)])
    while q:
        x, y = q.popleft()
        for dx, dy in VEC:
            n = ((x + dx) % w, (y + dy) % h)
            if n not in d:
                d[n] = d[(x, y)] + 1
                q.append(n)
    return d


_mesh_cache = {}


def bfs_mesh(r):
    """Distances from the origin to every (dx,dy) with |dx|,|dy| <= r, by BFS
    inside a window of radius 2r+2 (large enough that no shortest path to the
    inner window is cut off)."""
    if r in _mesh_cache:
        return _mesh_cache[r]
    R = 2 * r + 2
    d = {(0, 0): 0}
    q = collections.deque([(0, 0)])
    while q:
        x, y = q.popleft()
        for dx, dy in VEC:
            n = (x + dx, y + dy)
            if n not in d and abs(n[0]) <= R and abs(n[1]) <= R:
                d[n] = d[(x, y)] + 1
                q.append(n)
    _mesh_cache[r] = d
    return d


def hexdist(dx, dy):
    return max(abs(dx), abs(dy)) if dx * dy >= 0 else abs(dx) + abs(dy)


def run(case, ctx):
    from rig import geometry as g
    from rig.links import Links
    import importlib
    ru = importlib.import_module("rig.place_and_route.route.utils")
    kind = case["kind"]
    if kind == "torus":
        return run_torus(case, ctx, g, Links, ru)
    if kind == "mesh":
        return run_mesh(case, ctx, g, ru, Links)
    if kind == "hexagon":
        return run_hexagon(case, ctx, g)
    if kind == "large":
        return run_large(case, ctx, g)
    return run_links(case, ctx, Links)


class ExtremeRandom(object):
    """Stands in for the `random` module inside the library for one call:
    every primitive returns the lowest or the highest value it can return
    ("all outcomes of the random tie-breaks" includes the ends of each
    primitive's range), chosen by a bit pattern."""

    def __init__(self, bits):
        self.bits = bits
        self.calls = 0
        self._real = random.Random(bits)

    def _hi(self):
        b = self.bits >> (self.calls % 24) & 1
        self.calls += 1
        return b

    def random(self):
        return 1.0 - 2.0 ** -53 if self._hi() else 0.0

    def uniform(self, a, b):
        return b if self._hi() else a

    def randint(self, a, b):
        return b if self._hi() else a

    def randrange(self, a, b=None, step=1):
        if b is None:
            a, b = 0, a
        n = (b - a + step - 1) // step
        return a + (n - 1) * step if self._hi() else a

    def choice(self, seq):
        return seq[-1] if self._hi() else seq[0]

    def shuffle(self, x):
        if self._hi():
            x.reverse()

    def sample(self, population, k):
        pop = list(population)
        return pop[-k:][::-1] if self._hi() else pop[:k]

    def getrandbits(self, k):
        return (1 << k) - 1 if self._hi() else 0

    def __getattr__(self, name):
        return getattr(self._real, name)


class extreme_tie_breaks(object):
    def __init__(self, bits, *mods):
        self.mods, self.bits = mods, bits

    def __enter__(self):
        self.old = [m.random for m in self.mods]
        self.r = ExtremeRandom(self.bits)
        for m in self.mods:
            m.random = self.r
        return self.r

    def __exit__(self, *a):
        for m, o in zip(self.mods, self.old):
            m.random = o


def walk_ldf(ctx, ru, Links, v, start, w, h, dst, where, exact_order=True):
    if (w is None) != (h is None) and (start[0] + start[1]) % 2:
        p = ru.longest_dimension_first(v, start, **(
            dict(width=w) if h is None else dict(height=h)))
    else:
        p = ru.longest_dimension_first(v, start, w, h)
    ctx.hit("ldf_walk")
    cur = start
    hops = sum(abs(c) for c in v)
    check(len(p) == hops, "ldf-length", "%d steps for vector %r" %
          (len(p), (v,)), **where)
    runs = []
    for dirn, (px, py) in p:
        check(isinstance(dirn, Links), "ldf-label-type", repr(dirn), **where)
        dx, dy = VEC[int(dirn)]
        nx, ny = cur[0] + dx, cur[1] + dy
        if w is not None:
            nx %= w
        if h is not None:
            ny %= h
        check((nx, ny) == (px, py), "ldf-step-not-adjacent-or-mislabelled",
              "from %r by %r expected %r got %r" % (cur, dirn, (nx, ny),
                                                   (px, py)), path=p, **where)
        cur = (px, py)
        if runs and runs[-1][0] == dirn:
            runs[-1][1] += 1
        else:
            runs.append([dirn, 1])
    if hops:
        check(cur == dst, "ldf-wrong-destination", "ended %r want %r" %
              (cur, dst), path=p, **where)
    # longest dimension first: run lengths are the magnitudes, descending
    mags = sorted((abs(c) for c in v if c), reverse=True)
    # two dimensions may map to the same link only never (distinct dims give
    # distinct link axes), so runs correspond to dimensions
    got = [n for _, n in runs]
    if exact_order:
        check(got == mags, "ldf-not-longest-first",
              "runs %r for vector %r" % (runs, v), **where)
    else:
        # with a tie-break at the very top of its range (1 - 2**-53) the sum
        # "magnitude + tie-break" of a dimension rounds up to the next whole
        # number in double precision and ties with a dimension one hop
        # longer: which of the two comes first is then a matter of the
        # tie-break, as it is for equal magnitudes.  The property asks for
        # adjacency, labels and the destination; the order is judged only
        # where no rounding can touch it (magnitudes two or more apart)
        check(sorted(got, reverse=True) == mags and
              all(b < a + 2 for a, b in zip(got, got[1:])),
              "ldf-not-longest-first",
              "runs %r for vector %r" % (runs, v), **where)
    # the walk handed back is the caller's to keep and to edit (legs are
    # stitched together with += and the like): what the caller does to it
    # may not show in the answer to any later question
    if isinstance(p, list):
        p.extend([("stitched-on", (-7, -7))] * 3)
        p.reverse()
        ctx.hit("returned_walk_edited")


def torus_formula(x, y, w, h):
    """closed form: the best of the nine nearest images of the destination
    (cross-checked against the breadth-first search on every exhaustively
    enumerated torus below)"""
    return min(hexdist(x + i * w, y + j * h) for i in (-1, 0, 1)
               for j in (-1, 0, 1))


def run_large(case, ctx, g):
    """tori far too large to search: sampled pairs against the closed form"""
    w, h = case["w"], case["h"]
    rng = random.Random(case["seed"])
    for _ in range(300):
        sx, sy = rng.randrange(w), rng.randrange(h)
        if rng.random() < .5:
            # destinations around the half-way lines, where wrapping flips
            x = (w // 2 + rng.randint(-2, 2)) % w
            y = (h // 2 + rng.randint(-2, 2)) % h
            if rng.random() < .5:
                x = rng.randrange(w)
        else:
            x, y = rng.randrange(w), rng.randrange(h)
        z = rng.choice([0, 0, 7, -3])
        src = (sx + z, sy + z, z)
        dst2d = ((sx + x) % w, (sy + y) % h)
        dst = (dst2d[0], dst2d[1], 0)
        dist = torus_formula(x, y, w, h)
        where = dict(w=w, h=h, src=src, dst=dst, formula=dist)
        L = g.shortest_torus_path_length(src, dst, w, h)
        ctx.hit("large_torus_pair")
        if max(w, h) > 1 << 53:
            ctx.hit("torus_beyond_double_precision")
        check(L == dist, "torus-length", "got %r want %d" % (L, dist),
              **where)
        random.seed(case["seed"] + _)
        v = g.shortest_torus_path(src, dst, w, h)
        hops = abs(v[0]) + abs(v[1]) + abs(v[2])
        check(hops == dist, "torus-vector-length",
              "vector %r has %d hops, distance %d" % (v, hops, dist), **where)
        check(((sx + v[0] - v[2]) % w, (sy + v[1] - v[2]) % h) == dst2d,
              "torus-vector-destination", "vector %r" % (v,), **where)
    # the difference between two neighbouring chips across the seam of a
    # wide or tall torus still names the link between them
    if w >= 3 and h >= 3:
        from rig.links import Links
        for _ in range(40):
            x = rng.choice([0, w - 1, rng.randrange(w)])
            y = rng.choice([0, h - 1, rng.randrange(h)])
            for l, (dx, dy) in enumerate(VEC):
                nx, ny = (x + dx) % w, (y + dy) % h
                got = Links.from_vector((nx - x, ny - y))
                ctx.hit("from_vector_wrapped_large")
                check(int(got) == l, "from-vector-wrapped",
                      "delta %r on %dx%d gave %r want link %d" %
                      ((nx - x, ny - y), w, h, got, l))
                check(int(Links.from_vector((x - nx, y - ny))) == (l + 3) % 6,
                      "from-vector-wrapped", "reverse delta %r on %dx%d" %
                      ((x - nx, y - ny), w, h))
    ctx.mark_nontrivial()
    return "ok"


def run_torus(case, ctx, g, Links, ru):
    w, h = case["w"], case["h"]
    d = bfs_torus(w, h)
    check(len(d) == w * h, "oracle", "bfs incomplete")
    for (x_, y_), dist_ in d.items():
        check(torus_formula(x_, y_, w, h) == dist_, "oracle",
              "closed form %d != bfs %d at %r on %dx%d" %
              (torus_formula(x_, y_, w, h), dist_, (x_, y_), w, h))
    wrap_shorter = 0
    sources = [(0, 0), (w // 2, h - 1)]
    for (x, y), dist in sorted(d.items()):
        if dist < hexdist(x, y):
            wrap_shorter += 1
        for sx, sy in sources:
            for z in (0, 3, -2):
                src = (sx + z, sy + z, z)
                z2 = (0, -1, 5)[(x + y + z) % 3]
                dst2d = ((sx + x) % w, (sy + y) % h)
                dst = (dst2d[0] + z2, dst2d[1] + z2, z2)
                where = dict(w=w, h=h, src=src, dst=dst, bfs=dist)
                L = g.shortest_torus_path_length(src, dst, w, h)
                ctx.hit("torus_length")
                check(L == dist, "torus-length", "got %r want %d" % (L, dist),
                      **where)
                for rep in range(5):
                    random.seed(case["seed"] * 7 + rep)
                    if rep >= 3:
                        # tie-breaks at the ends of their ranges
                        xr = extreme_tie_breaks(
                            (case["seed"] >> rep) ^ (x * 7 + y * 13 + z + rep)
                            if rep == 3 else (0, 0xffffff)[(x + y) & 1],
                            g, ru)
                        with xr:
                            v = g.shortest_torus_path(src, dst, w, h)
                            where = dict(where, tie_breaks="extreme %#x" %
                                         xr.bits)
                            hops = abs(v[0]) + abs(v[1]) + abs(v[2])
                            check(hops == dist, "torus-vector-length",
                                  "vector %r has %d hops, distance %d" %
                                  (v, hops, dist), **where)
                            check(((sx + v[0] - v[2]) % w,
                                   (sy + v[1] - v[2]) % h) == dst2d,
                                  "torus-vector-destination", "vector %r" %
                                  (v,), **where)
                            ctx.hit("extreme_tie_breaks")
                            walk_ldf(ctx, ru, Links, v, (sx, sy), w, h, dst2d,
                                     where, exact_order=False)
                        where = dict(w=w, h=h, src=src, dst=dst, bfs=dist)
                        continue
                    v = g.shortest_torus_path(src, dst, w, h)
                    ctx.hit("torus_vector")
                    hops = abs(v[0]) + abs(v[1]) + abs(v[2])
                    ex = (sx + v[0] - v[2]) % w
                    ey = (sy + v[1] - v[2]) % h
                    check(hops == dist, "torus-vector-length",
                          "vector %r has %d hops, distance %d" %
                          (v, hops, dist), **where)
                    check((ex, ey) == dst2d, "torus-vector-destination",
                          "vector %r leads to %r" % (v, (ex, ey)), **where)
                    walk_ldf(ctx, ru, Links, v, (sx, sy), w, h, dst2d, where)
                    if (sx + sy + x + y) % 3 == 0:
                        # wrapping on one axis only (a cylinder): each of
                        # width / height may be None on its own
                        ux, uy = sx + v[0] - v[2], sy + v[1] - v[2]
                        ctx.hit("ldf_one_sided_wrap")
                        walk_ldf(ctx, ru, Links, v, (sx, sy), w, None,
                                 (ux % w, uy), dict(where, wrap="x only"))
                        walk_ldf(ctx, ru, Links, v, (sx, sy), None, h,
                                 (ux, uy % h), dict(where, wrap="y only"))
    # neighbour deltas map back to the link taken (w, h >= 3)
    if w >= 3 and h >= 3:
        for x in range(w):
            for y in range(h):
                for l, (dx, dy) in enumerate(VEC):
                    nx, ny = (x + dx) % w, (y + dy) % h
                    got = Links.from_vector((nx - x, ny - y))
                    ctx.hit("from_vector_wrapped")
                    check(int(got) == l, "from-vector-wrapped",
                          "delta %r on %dx%d gave %r want link %d" %
                          ((nx - x, ny - y), w, h, got, l))
    ctx.count("torus_pairs_closer_through_wrap", wrap_shorter)
    if wrap_shorter:
        ctx.mark_nontrivial()
    ctx.note(dict(chips=w * h, max_distance=max(d.values()),
                  offsets_closer_through_wrap=wrap_shorter))
    return "ok"


def run_mesh(case, ctx, g, ru, Links):
    r = case["r"]
    d = bfs_mesh(r)
    rng = random.Random(case["seed"])
    pts = [(dx, dy) for dx in range(-r, r + 1) for dy in range(-r, r + 1)]
    pts = pts[case["part"]::case["parts"]]
    for dx, dy in pts:
        dist = d[(dx, dy)]
        check(dist == hexdist(dx, dy), "oracle", "closed form != bfs")
        for rep in range(2):
            za, zb = rng.randint(-5, 5), rng.randint(-5, 5)
            ax, ay = rng.randint(-9, 9), rng.randint(-9, 9)
            a = (ax + za, ay + za, za)
            b = (ax + dx + zb, ay + dy + zb, zb)
            check_mesh_pair(ctx, g, ru, Links, a, b, dx, dy, dist)
    for _ in range(case["far"]):
        a = tuple(rng.randint(-2000, 2000) for _ in range(3))
        b = tuple(rng.randint(-2000, 2000) for _ in range(3))
        dx = (b[0] - b[2]) - (a[0] - a[2])
        dy = (b[1] - b[2]) - (a[1] - a[2])
        check_mesh_pair(ctx, g, ru, Links, a, b, dx, dy, hexdist(dx, dy),
                        walk=False)
    # coordinates far beyond what a double holds exactly
    for _ in range(max(4, case["far"] // 4)):
        big = rng.choice([1 << 53, 1 << 60, 10 ** 17, 1 << 80])
        a = tuple(rng.randint(-3, 3) + rng.choice([0, big, -big])
                  for _ in range(3))
        b = tuple(rng.randint(-3, 3) + rng.choice([0, big + 1, -big - 1,
                                                   3 * big + 1])
                  for _ in range(3))
        dx = (b[0] - b[2]) - (a[0] - a[2])
        dy = (b[1] - b[2]) - (a[1] - a[2])
        ctx.hit("mesh_huge_coordinates")
        check_mesh_pair(ctx, g, ru, Links, a, b, dx, dy, hexdist(dx, dy),
                        walk=False)
    ctx.mark_nontrivial()
    ctx.note(dict(offsets=len(pts), far_pairs=case["far"]))
    return "ok"


def check_mesh_pair(ctx, g, ru, Links, a, b, dx, dy, dist, walk=True):
    where = dict(src=a, dst=b, want=dist)
    L = g.shortest_mesh_path_length(a, b)
    v = g.shortest_mesh_path(a, b)
    ctx.hit("mesh")
    check(L == dist, "mesh-length", "got %r want %r" % (L, dist), **where)
    v = tuple(v)
    check(len(v) == 3 and sum(abs(c) for c in v) == dist, "mesh-vector-length",
          "vector %r distance %d" % (v, dist), **where)
    check((v[0] - v[2], v[1] - v[2]) == (dx, dy), "mesh-vector-destination",
          "vector %r want delta %r" % (v, (dx, dy)), **where)
    m = tuple(g.minimise_xyz((dx + 7, dy + 7, 7)))
    check(sum(abs(c) for c in m) == dist and
          (m[0] - m[2], m[1] - m[2]) == (dx, dy), "minimise-xyz",
          "minimise_xyz(%r) = %r" % ((dx + 7, dy + 7, 7), m), **where)
    check(tuple(g.to_xyz((dx, dy))) == (dx, dy, 0), "to-xyz", "")
    if walk:
        start = (a[0] - a[2], a[1] - a[2])
        walk_ldf(ctx, ru, Links, v, start, None, None,
                 (start[0] + dx, start[1] + dy), where)


def run_hexagon(case, ctx, g):
    r = case["r"]
    sx, sy = case["start"]
    if case.get("stream"):
        # judged while it is produced: ring d holds 6d distinct chips at
        # distance d (one chip for d = 0), rings come nearest first, nothing
        # follows the last ring
        ring, seen, count = 0, set(), 0
        ctx.hit("hexagon_large_radius")
        for x, y in g.concentric_hexagons(r, (sx, sy)):
            d = hexdist(x - sx, y - sy)
            if d != ring:
                check(d == ring + 1 and len(seen) == max(1, 6 * ring),
                      "hexagon-order", "radius %d: chip at distance %d "
                      "after %d chips of ring %d" % (r, d, len(seen), ring),
                      r=r)
                ring, seen = d, set()
            check((x, y) not in seen, "hexagon-duplicate",
                  "radius %d: %r twice" % (r, (x, y)), r=r)
            seen.add((x, y))
            count += 1
            check(d <= r, "hexagon-count", "radius %d: chip at distance %d" %
                  (r, d), r=r)
        check(ring == r and len(seen) == max(1, 6 * r) and
              count == 3 * r * (r + 1) + 1, "hexagon-count",
              "radius %d: %d chips in all, last ring %d with %d; the hexagon "
              "has %d" % (r, count, ring, len(seen), 3 * r * (r + 1) + 1),
              r=r)
        ctx.hit("hexagon_streamed_chips", count)
        ctx.mark_nontrivial()
        return "ok"
    if case.get("big"):
        import itertools
        n = 3 * r * (r + 1) + 1
        pts = list(itertools.islice(g.concentric_hexagons(r, (sx, sy)), n + 7))
        ctx.hit("hexagon_large_radius")
        check(len(pts) == n, "hexagon-count",
              "radius %d: %s%d points, the hexagon has %d" %
              (r, "at least " if len(pts) > n else "", len(pts), n), r=r)
        check(len(set(map(tuple, pts))) == n, "hexagon-duplicate", "", r=r)
        ds = [hexdist(x - sx, y - sy) for x, y in pts]
        check(ds == sorted(ds) and ds[-1] == r, "hexagon-order",
              "rings not nearest first / last ring at %d" % ds[-1], r=r)
        ctx.mark_nontrivial()
        return "ok"
    # usage history first: searches that stop at the first hit abandon the
    # generator part-way, and two searches may be in progress at once
    import itertools
    k = (sx * 7 + sy * 3 + r) % (3 * r * (r + 1) + 2)
    if case.get("abandon"):
        part = list(itertools.islice(g.concentric_hexagons(r, (sy, sx)), k))
        check(len(part) == min(k, 3 * r * (r + 1) + 1), "hexagon-count",
              "%d of the first %d" % (len(part), k), r=r)
        ctx.hit("hexagon_abandoned_search")
    g1 = g.concentric_hexagons(r, (sx, sy))
    g2 = g.concentric_hexagons(r, (sx, sy))
    inter1, inter2 = [], []
    for a, b in zip(g1, g2):
        inter1.append(tuple(a))
        inter2.append(tuple(b))
    pts = [tuple(p) for p in g.concentric_hexagons(r, (sx, sy))]
    check(inter1 == pts and inter2 == pts, "hexagon-interleaved",
          "two generators advanced alternately gave %d / %d points, a single "
          "one %d" % (len(inter1), len(inter2), len(pts)), r=r)
    ctx.hit("hexagon_ring")
    check(len(pts) == len(set(pts)), "hexagon-duplicate",
          "%d points, %d distinct" % (len(pts), len(set(pts))), r=r)
    want = {(sx + dx, sy + dy) for dx in range(-r, r + 1)
            for dy in range(-r, r + 1) if hexdist(dx, dy) <= r}
    check(len(want) == 3 * r * (r + 1) + 1, "oracle", "hexagon count")
    check(set(pts) == want, "hexagon-set",
          "missing %r extra %r" % (sorted(want - set(pts))[:5],
                                   sorted(set(pts) - want)[:5]), r=r)
    ds = [hexdist(x - sx, y - sy) for x, y in pts]
    check(ds == sorted(ds), "hexagon-order", "rings not nearest first", r=r)
    if r:
        ctx.mark_nontrivial()
    ctx.note(dict(points=len(pts)))
    return "ok"


def run_links(case, ctx, Links):
    check(sorted(int(l) for l in Links) == list(range(6)), "links-enum", "")
    # the names callers write, and what the hardware means by each number
    check({l.name: int(l) for l in Links} ==
          dict(east=0, north_east=1, north=2, west=3, south_west=4, south=5),
          "links-names", repr({l.name: int(l) for l in Links}))
    for l in Links:
        ctx.hit("links")
        v = tuple(l.to_vector())
        check(v == VEC[int(l)], "link-vector", "%r -> %r" % (l, v))
        check(Links.from_vector(v) == l, "link-roundtrip", repr(l))
        o = l.opposite
        check(isinstance(o, Links) and int(o) == (int(l) + 3) % 6,
              "link-opposite", repr(l))
        check(tuple(o.to_vector()) == (-v[0], -v[1]), "link-opposite-vector",
              repr(l))
        check(o.opposite == l, "link-opposite-involution", repr(l))
    ctx.mark_nontrivial()
    return "ok"
