"""C19 - SpiNN-5 board geometry functions agree with the board tiling.

Oracle: an independent model of the tiling: a board is the 48-chip shape
{(x,y) in 0..7^2 : x-y <= 4, y-x <= 3}; boards sit with their Ethernet chip
at root + {(0,0),(4,8),(8,4)} + 12*Z^2."""
from ..core import check, Rejected

ID = "C19"
IMPORTS = ['rig.geometry']
LEVEL = "exploration"
TECHNIQUE = ("runtime post-condition monitor on return values vs independent "
             "tile model, exhaustive enumeration of sizes/roots/chips/links")
LEVEL_TEXT = ("All five geometry functions are evaluated on every chip, link "
              "and root offset of every machine size inside a stated bound "
              "and compared with an independently written tile model; the "
              "functions are finite table look-ups so bounded exhaustive "
              "enumeration reaches every table cell in every wrap situation.")
LEVEL_NOTE = ("Trusted: the harness's 48-chip shape and lattice of board "
              "positions (from the SpiNN-5 documentation). Sizes beyond the "
              "bound are not explored.")
QN, TN = 24, 36
EXHAUSTIVE = {"quick": False, "thorough": True}
BOUND = {"quick": "all widths/heights 1..%d: Ethernet lists for all 144 root "
                  "offsets (exhaustive); per-chip functions for 6 rotating "
                  "root offsets per size (all 144 offsets covered across "
                  "sizes), every chip whose board's Ethernet chip is in the "
                  "machine, all six links; board counts 0..3000" % QN,
         "thorough": "all widths/heights 1..%d x all 144 root offsets x every "
                     "chip x all six links; board counts 0..30000" % TN}
RULE = ("one case = one machine size (all listed roots/chips/links "
        "enumerated inside it) or one block of board counts; non-trivial = "
        "the machine contains at least two boards' Ethernet chips or a "
        "board-count block contains a multiple of three; distinct by case")
ASSUMPTIONS = [
    "machines whose width and height are both multiples of 12 are tori "
    "(boards wrap around); other sizes have no wrap-around and a chip is only "
    "judged when its board's Ethernet chip lies inside the machine",
]
FLOORS = {"root_coordinate_left_to_default": 500, "eth_enumeration_abandoned": 2000, "eth_list": 1000, "local_eth": 10000, "chip_coord": 10000,
          "fpga_link": 50000, "std_dims": 3000, "fpga_ids_distinct": 1}
SHARDS = {"quick": 16, "thorough": 64}

SHAPE = frozenset((x, y) for x in range(8) for y in range(8)
                  if x - y <= 4 and y - x <= 3)
ETH = ((0, 0), (4, 8), (8, 4))
VEC = [(1, 0), (1, 1), (0, 1), (-1, 0), (-1, -1), (0, -1)]


def plan(tier):
    n = QN if tier == "quick" else TN
    return [("size", n * n), ("boards", 3 if tier == "quick" else 30),
            ("fpga_ids", 1), ("bigroot", 60 if tier == "quick" else 1500)]


def gen(cls, idx, rng, tier):
    n = QN if tier == "quick" else TN
    if cls == "size":
        if tier == "quick":
            roots = [((idx * 6 + k) * 7 % 144) for k in range(6)]
        else:
            roots = list(range(144))
        return dict(kind="size", w=idx // n + 1, h=idx % n + 1, roots=roots)
    if cls == "bigroot":
        # the root chip is any Ethernet chip of the machine, e.g. (16, 20)
        w, h = rng.choice([(12, 12), (24, 12), (36, 24), (48, 48), (20, 20),
                           (8, 8), (rng.randint(1, 48), rng.randint(1, 48)),
                           (12 * rng.randint(5, 21), 12 * rng.randint(5, 21)),
                           (rng.randint(49, 255), rng.randint(49, 255))])
        return dict(kind="size", w=w, h=h, roots=[], big=[
            (rng.choice([0, 4, 8]) + 12 * rng.randint(1, 5) + d,
             rng.choice([0, 8, 4]) + 12 * rng.randint(1, 5) + d)
            for d in (0, 0, rng.randint(0, 11))])
    if cls == "boards":
        return dict(kind="boards", lo=idx * 1000 + (0 if idx == 0 else 1),
                    hi=(idx + 1) * 1000)
    return dict(kind="fpga_ids")


def board_of(x, y, rx, ry):
    """-> (plane coordinate of the Ethernet chip of the board containing the
    chip, on-board coordinate)."""
    for ex, ey in ETH:
        for kx in (-1, 0):
            for ky in (-1, 0):
                bx = (x - rx - ex) % 12 + 12 * kx
                by = (y - ry - ey) % 12 + 12 * ky
                if (bx, by) in SHAPE:
                    return (x - bx, y - by), (bx, by)
    raise AssertionError("tile model does not cover %r" % ((x, y, rx, ry),))


def run(case, ctx):
    from rig import geometry as g
    from rig.links import Links
    k = case["kind"]
    if k == "boards":
        return run_boards(case, ctx, g)
    if k == "fpga_ids":
        return run_fpga_ids(case, ctx, g, Links)
    w, h = case["w"], case["h"]
    torus = w % 12 == 0 and h % 12 == 0
    W, H = ((w + 11) // 12) * 12, ((h + 11) // 12) * 12
    links = list(Links)
    most = 0
    root_list = [(r % 12, r // 12, r) for r in range(144)] if not \
        case.get("big") else [(rx_, ry_, -1) for rx_, ry_ in case["big"]]
    for rx, ry, r in root_list:
        nested = None
        if (rx + ry) % 3 == 0:
            # an enumeration given up after its first chip, and two
            # enumerations of the same machine walked in step, before the
            # one that is judged
            it = g.spinn5_eth_coords(w, h, rx, ry)
            next(it, None)
            del it
            ctx.hit("eth_enumeration_abandoned")
            nested = [(tuple(a), tuple(b))
                      for a in g.spinn5_eth_coords(w, h, rx, ry)
                      for b in g.spinn5_eth_coords(w, h, rx, ry)]
        lst = [tuple(c) for c in rooted(ctx, g.spinn5_eth_coords, (w, h),
                                        rx, ry, rx + ry + w)]
        ctx.hit("eth_list")
        if nested is not None:
            check(nested == [(a, b) for a in lst for b in lst],
                  "eth-list-nested",
                  "a nested pair of enumerations gave %d pairs, one "
                  "enumeration gives %d chips" % (len(nested), len(lst)),
                  w=w, h=h, root=(rx, ry))
        exp = set()
        for ex, ey in ETH:
            for i in range(-1, W // 12 + 1):
                for j in range(-1, H // 12 + 1):
                    # the lattice is invariant under shifts by 12
                    px, py = rx % 12 + ex + 12 * i, ry % 12 + ey + 12 * j
                    if torus:
                        exp.add((px % w, py % h))
                    elif 0 <= px < w and 0 <= py < h:
                        exp.add((px, py))
        where = dict(w=w, h=h, root=(rx, ry))
        check(len(lst) == len(set(lst)), "eth-list-duplicate", repr(lst),
              **where)
        check(set(lst) == exp, "eth-list", "got %r want %r" %
              (sorted(lst), sorted(exp)), **where)
        most = max(most, len(exp))
        if r not in case["roots"] and r != -1:
            continue
        for x in range(w):
            for y in range(h):
                (ex, ey), (bx, by) = board_of(x, y, rx, ry)
                cc = rooted(ctx, g.spinn5_chip_coord, (x, y), rx, ry, x + y)
                ctx.hit("chip_coord")
                check(tuple(cc) == (bx, by), "chip-coord", "got %r want %r" %
                      (cc, (bx, by)), chip=(x, y), **where)
                if torus:
                    e = (ex % w, ey % h)
                elif 0 <= ex < w and 0 <= ey < h:
                    e = (ex, ey)
                else:
                    e = None
                if e is not None:
                    got = rooted(ctx, g.spinn5_local_eth_coord,
                                 (x, y, w, h), rx, ry, x + 2 * y)
                    ctx.hit("local_eth")
                    check(tuple(got) == e, "local-eth", "got %r want %r" %
                          (got, e), chip=(x, y), **where)
                    check(e in exp, "oracle", "eth chip not in list")
                else:
                    # a position whose board's Ethernet chip lies outside
                    # the (ragged) machine: whatever is answered for it is
                    # not judged - but asking is harmless and must not
                    # change what is answered for any other chip
                    try:
                        rooted(ctx, g.spinn5_local_eth_coord, (x, y, w, h),
                               rx, ry, x + 2 * y)
                    except Exception:
                        pass
                    ctx.hit("asked_about_a_board_without_ethernet_chip")
                for l in links:
                    dx, dy = VEC[int(l)]
                    leaves = (bx + dx, by + dy) not in SHAPE
                    f = rooted(ctx, g.spinn5_fpga_link, (x, y, l), rx, ry,
                               x + y + int(l))
                    ctx.hit("fpga_link")
                    check((f is not None) == leaves, "fpga-link",
                          "link %r of on-board chip %r: got %r, leaves=%r" %
                          (l, (bx, by), f, leaves), chip=(x, y), **where)
    tables_unchanged(ctx, g)
    if most >= 2:
        ctx.mark_nontrivial()
    ctx.note(dict(max_ethernet_chips=most, torus=torus))
    return "ok"


def rooted(ctx, fn, fixed, rx, ry, salt):
    """call fn(*fixed, root_x, root_y) in one of the documented ways of
    naming the root chip: both by position, both by keyword, and - the
    defaults being 0 - only the coordinate that is not 0, or neither"""
    form = salt % 3
    if form == 1:
        return fn(*fixed, root_x=rx, root_y=ry)
    if form == 2:
        kw = {}
        if rx:
            kw["root_x"] = rx
        if ry:
            kw["root_y"] = ry
        if len(kw) < 2:
            ctx.hit("root_coordinate_left_to_default")
        return fn(*fixed, **kw)
    return fn(*fixed, rx, ry)


def tables_unchanged(ctx, g):
    """the module's documented tables are data users read directly: asking
    the functions questions does not edit them"""
    t = getattr(g, "SPINN5_FPGA_LINKS", None)
    ctx.hit("documented_tables_examined")
    check(isinstance(t, dict) and len(t) == 48 and
          all(isinstance(v, tuple) and len(v) == 2 for v in t.values()) and
          len(set(t.values())) == 48, "fpga-table-changed",
          "SPINN5_FPGA_LINKS now has %d entries, %d of them not (fpga, link) "
          "pairs; the board has 48 links leaving it" %
          (len(t or ()), sum(1 for v in (t or {}).values()
                             if not isinstance(v, tuple))))
    o = getattr(g, "SPINN5_ETH_OFFSET", None)
    check(o is not None and len(o) == 12 and all(len(r) == 12 for r in o),
          "eth-offset-table-changed", "SPINN5_ETH_OFFSET is no longer 12x12")


def run_fpga_ids(case, ctx, g, Links):
    ids = {}
    for (bx, by) in sorted(SHAPE):
        for l in Links:
            dx, dy = VEC[int(l)]
            if (bx + dx, by + dy) not in SHAPE:
                f = g.spinn5_fpga_link(bx, by, l)
                check(f is not None, "fpga-link", "edge link without id",
                      chip=(bx, by), link=int(l))
                f = tuple(f)
                check(len(f) == 2 and f[0] in (0, 1, 2) and 0 <= f[1] <= 15,
                      "fpga-id-range", repr(f), chip=(bx, by), link=int(l))
                check(f not in ids, "fpga-id-duplicate",
                      "%r used by %r and %r" % (f, ids.get(f), (bx, by, l)))
                ids[f] = (bx, by, int(l))
    ctx.hit("fpga_ids_distinct")
    tables_unchanged(ctx, g)
    check(len(ids) == 48, "oracle", "board has %d edge links" % len(ids))
    ctx.mark_nontrivial()
    ctx.note(dict(edge_links=len(ids)))
    return "ok"


def run_boards(case, ctx, g):
    nt = False
    for n in range(case["lo"], case["hi"] + 1):
        ctx.hit("std_dims")
        try:
            got = g.standard_system_dimensions(n)
        except ValueError:
            check(n % 3 != 0 and n > 1, "std-dims-error",
                  "ValueError for %d boards" % n)
            continue
        got = tuple(got)
        if n == 0:
            want = (0, 0)
        elif n == 1:
            want = (8, 8)
        else:
            check(n % 3 == 0, "std-dims-accepts-non-multiple",
                  "%d boards -> %r" % (n, got))
            t = n // 3
            nt = True
            b = max(d for d in range(1, int(t ** 0.5) + 2)
                    if t % d == 0 and d * d <= t)
            want = (12 * (t // b), 12 * b)
        check(got == want, "std-dims", "%d boards: got %r want %r" %
              (n, got, want))
    if nt:
        ctx.mark_nontrivial()
    return "ok"
