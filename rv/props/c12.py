"""C12 - flood-fill region list selects exactly the requested chips and cores.

Oracle: independent decoder of a region word, written from the documented
layout (bits 31:24 x of the block, 23:18 upper bits of y, 17:16 level, 15:0 one
bit per sub-block, sub-block b at column b&3 / row b>>2, sub-block edge
4**(3-level) chips)."""
import collections
import random

from ..core import check

ID = "C12"
IMPORTS = ['rig.machine_control.regions']
LEVEL = "exploration"
TECHNIQUE = ("runtime post-condition monitor: decode-and-compare of returned "
             "(region, core mask) pairs against the requested core set")
LEVEL_TEXT = ("Generated target sets (sparse, full and nearly full blocks at "
              "every level, blocks straddling level boundaries, different core "
              "sets on neighbouring chips, the whole 256x256x18 space) are "
              "compressed by the real code and the result is decoded by an "
              "independent decoder and compared as a multiset; randomised "
              "exploration because the input space (subsets of 1.2M cores) "
              "cannot be enumerated."
              ' One dictionary object edited in place and compressed again; a rejected set followed by a corrected one.')
LEVEL_NOTE = ("Trusted: the harness's region-word decoder. Only generated "
              "target sets are covered.")
RULE = ("one case = one target set built from points, rectangles and holes; "
        "non-trivial = the output contains at least one region word of level "
        "< 3 (a collapse happened) or at least 3 chips with differing core "
        "sets; distinct by case")
ASSUMPTIONS = ["core numbers 0..17, chip coordinates 0..255 (others must "
               "raise ValueError)"]
FLOORS = {"decode_compare": 100, "collapsed_words": 50, "chip_word": 100,
          "staged_read": 100, "same_dict_again": 100,
          "valid_call_after_rejected_call": 50}
SHARDS = {"quick": 16, "thorough": 48}
ANCHORS = [("rig.machine_control.regions", "RegionCoreTree.add_core",
            {"collapse": "self.locally_selected[p] = 0x0",
             "already_selected_skip":
                 "if self.subregions[subregion].add_core(x, y, p):"})]

CLASSES = ["sparse", "aligned", "nearfull", "straddle", "percore", "mixed",
           "chipword", "invalid", "staged", "manycores", "reuse"]


def plan(tier):
    n = 250 if tier == "quick" else 12000
    p = [(c, n) for c in CLASSES]
    p.append(("big", 8 if tier == "quick" else 300))
    if tier == "thorough":
        p.append(("everything", 1))
    return p


def rcores(rng, lo=1, hi=4):
    return sorted(rng.sample(range(18), rng.randint(lo, hi)))


def gen(cls, idx, rng, tier):
    ops = []
    if cls == "chipword":
        return dict(kind="chipword", pts=[(rng.randrange(256),
                                           rng.randrange(256))
                                          for _ in range(50)])
    if cls == "invalid":
        bad = rng.choice([(256, 3, 1), (3, 256, 1), (-1, 0, 0), (0, -1, 0),
                          (5, 5, 18), (5, 5, -1), (300, 300, 30)])
        # the caller's set also holds good targets (listed first), and the
        # caller corrects the set and asks again
        good = [((rng.randrange(256), rng.randrange(256)), rcores(rng, 1, 3))
                for _ in range(rng.randint(0, 4))]
        return dict(kind="invalid", bad=bad, good=good)
    if cls == "staged":
        # the tree is filled in several stages and read after each of them
        stages = []
        base = gen(rng.choice(["aligned", "nearfull", "percore", "sparse"]),
                   idx, rng, tier)
        ops_all = base["ops"]
        ox, oy = rng.randrange(0, 240, 4), rng.randrange(0, 240, 4)
        cs = rcores(rng, 1, 2)
        # a block that completes only in a later stage
        ops_all += [("rect", ox, oy, 4, 3, cs), ("rect", ox, oy + 3, 4, 1, cs),
                    ("pt", ox + 1, oy + 1, rcores(rng, 1, 2))]
        rng.shuffle(ops_all)
        k = rng.randint(2, 4)
        for i in range(k):
            stages.append([op for j, op in enumerate(ops_all) if j % k == i
                           and op[0] != "hole"])
        return dict(kind="staged", stages=stages,
                    shuffle=rng.randrange(1 << 30))
    if cls == "reuse":
        # one dictionary object handed in again and again, edited in place
        # by its owner between the calls (what a caller's own retry loop
        # does when it strikes loaded cores off the per-chip sets)
        base = gen(rng.choice(["aligned", "nearfull", "percore", "sparse",
                               "mixed"]), idx, rng, tier)
        edits = []
        for _ in range(rng.randint(2, 5)):
            edits.append(dict(
                how=rng.choice(["strike", "strike", "swap_chip", "add_core",
                                "drop_chip", "add_chip", "replace_set",
                                "nothing"]),
                r=rng.randrange(1 << 30), between=rng.random() < .25))
        return dict(kind="reuse", ops=base["ops"], edits=edits,
                    shuffle=rng.randrange(1 << 30))
    if cls == "everything":
        return dict(kind="set", ops=[("rect", 0, 0, 256, 256,
                                      list(range(18)))], shuffle=0)
    if cls == "big":
        size = rng.choice([64, 64, 128])
        ox = rng.randrange(0, 256 - size + 1, 16 if rng.random() < .5 else 64)
        oy = rng.randrange(0, 256 - size + 1, 16 if rng.random() < .5 else 64)
        ops.append(("rect", ox, oy, size, size, rcores(rng, 1, 3)))
        for _ in range(rng.randint(0, 3)):
            ops.append(("hole", ox + rng.randrange(size),
                        oy + rng.randrange(size), rcores(rng, 1, 18)))
    if cls in ("sparse", "mixed"):
        for _ in range(rng.randint(1, 40)):
            ops.append(("pt", rng.randrange(256), rng.randrange(256),
                        rcores(rng, 1, 3)))
    if cls in ("aligned", "nearfull", "mixed"):
        for _ in range(rng.randint(1, 3)):
            size = rng.choice([4, 4, 4, 16, 16, 64])
            ox = rng.randrange(0, 256, size)
            oy = rng.randrange(0, 256, size)
            cs = rcores(rng)
            ops.append(("rect", ox, oy, size, size, cs))
            if rng.random() < .5:
                # other cores on a few chips inside the full block
                for _ in range(rng.randint(1, 6)):
                    ops.append(("pt", ox + rng.randrange(size),
                                oy + rng.randrange(size), rcores(rng, 1, 2)))
            if cls != "aligned":
                for _ in range(rng.randint(1, 4)):
                    ops.append(("hole", ox + rng.randrange(size),
                                oy + rng.randrange(size),
                                rcores(rng, 1, 2) if rng.random() < .5 else cs))
    if cls == "straddle":
        for _ in range(rng.randint(1, 2)):
            size = rng.choice([4, 8, 16, 20, 32])
            bound = rng.choice([4, 16, 64])
            ox = (rng.randrange(1, 256 // bound) * bound -
                  rng.randrange(1, size)) % 256
            oy = (rng.randrange(1, 256 // bound) * bound -
                  rng.randrange(0, size)) % 256
            ops.append(("rect", ox, oy, min(size, 256 - ox),
                        min(size, 256 - oy), rcores(rng)))
    if cls == "manycores":
        # every (or nearly every) core number is in use somewhere below one
        # node of the tree, and the core numbers fall into one, two or
        # three groups with different chip sets
        ox, oy = rng.randrange(0, 256, 4), rng.randrange(0, 256, 4)
        span = rng.choice([4, 4, 16, 64])
        everyone = list(range(18)) if rng.random() < .7 else \
            sorted(rng.sample(range(18), rng.randint(15, 17)))
        near = lambda: ((ox + rng.randrange(span)) & 255,
                        (oy + rng.randrange(span)) & 255)
        for _ in range(rng.randint(1, 3)):
            ops.append(("pt",) + near() + (everyone,))
        for _ in range(rng.randint(0, 3)):
            ops.append(("pt",) + near() + (rcores(rng, 1, 3),))
        if rng.random() < .3:
            ops.append(("rect", ox, oy, 4, 4, rcores(rng, 1, 18)))
        if rng.random() < .3:
            ops.append(("pt", rng.randrange(256), rng.randrange(256),
                        rcores(rng, 1, 18)))
    if cls == "percore":
        ox, oy = rng.randrange(0, 252), rng.randrange(0, 252)
        base = rcores(rng, 1, 3)
        ops.append(("rect", ox & ~3, oy & ~3, 4, 4, base))
        for _ in range(rng.randint(2, 12)):
            ops.append(("pt", (ox & ~3) + rng.randrange(-2, 6) & 255,
                        (oy & ~3) + rng.randrange(-2, 6) & 255,
                        rcores(rng, 1, 5)))
    return dict(kind="set", ops=ops, shuffle=rng.randrange(1 << 30))


def expand(ops):
    t = collections.defaultdict(set)
    for op in ops:
        if op[0] == "pt":
            t[(op[1], op[2])].update(op[3])
        elif op[0] == "rect":
            _, ox, oy, w, h, cs = op
            for x in range(ox, ox + w):
                for y in range(oy, oy + h):
                    t[(x, y)].update(cs)
        elif op[0] == "hole":
            t[(op[1], op[2])].difference_update(op[3])
    return {xy: cs for xy, cs in t.items() if cs}


def decode(region):
    """-> (level, iterator over selected chips); raises AssertionError when
    the word is malformed (base not aligned to its block)."""
    level = (region >> 16) & 3
    bx = (region >> 24) & 0xff
    by = (region >> 16) & 0xfc
    size = 1 << (6 - 2 * level)
    return level, bx, by, size


def chips_of(region):
    level, bx, by, size = decode(region)
    for b in range(16):
        if region >> b & 1:
            ox, oy = bx + (b & 3) * size, by + (b >> 2) * size
            for x in range(ox, ox + size):
                for y in range(oy, oy + size):
                    yield (x, y)


def judge_pairs(ctx, out, targets, check_order=True):
    sel = collections.Counter()
    levels = collections.Counter()
    for pair in out:
        region, mask = pair
        check(0 <= region < 1 << 32 and 0 < mask < 1 << 18 and
              region & 0xffff, "malformed-pair", "%#x %#x" % (region, mask))
        level, bx, by, size = decode(region)
        check(bx % (4 * size) == 0 and by % (4 * size) == 0 and
              bx + 4 * size <= 256 and by + 4 * size <= 256,
              "region-base-misaligned", "%#x" % region)
        levels[level] += 1
        cores = [c for c in range(18) if mask >> c & 1]
        for xy in chips_of(region):
            for c in cores:
                sel[(xy, c)] += 1
    exp = {(xy, c) for xy, cs in targets.items() for c in cs}
    got = set(sel)
    if got != exp:
        miss, extra = sorted(exp - got), sorted(got - exp)
        check(not miss, "core-missing", "%d requested cores not selected, "
              "e.g. %r" % (len(miss), miss[:4]), n_out=len(out))
        check(not extra, "core-extra", "%d unrequested cores selected, e.g. %r"
              % (len(extra), extra[:4]), n_out=len(out))
    dups = [k for k, n in sel.items() if n > 1]
    check(not dups, "core-selected-twice", "%d cores, e.g. %r" %
          (len(dups), sorted(dups)[:4]))
    keys = [(r << 32) | m for r, m in out]
    check(not check_order or all(a < b for a, b in zip(keys, keys[1:])),
          "order-not-increasing",
          "pairs %r" % [("%#x" % r, "%#x" % m) for r, m in out[:8]])
    coarse = sum(n for l, n in levels.items() if l < 3)
    ctx.hit("collapsed_words", coarse)
    return exp, levels, coarse


def run(case, ctx):
    import importlib
    R = importlib.import_module("rig.machine_control.regions")
    if case["kind"] == "chipword":
        for x, y in case["pts"]:
            for level in (3, 2, 1, 0):
                w = R.get_region_for_chip(x, y, level)
                ctx.hit("chip_word")
                sel = set(chips_of(w))
                lv, bx, by, size = decode(w)
                check(lv == level and 0 <= w < 1 << 32, "chip-word-level",
                      hex(w), chip=(x, y), level=level)
                check(bin(w & 0xffff).count("1") == 1 and (x, y) in sel and
                      len(sel) == size * size, "chip-word-selection",
                      "word %#x selects %d chips" % (w, len(sel)),
                      chip=(x, y), level=level)
                check(bx % (4 * size) == 0 and by % (4 * size) == 0,
                      "chip-word-base", hex(w), chip=(x, y), level=level)
                if level == 3:
                    check(sel == {(x, y)}, "chip-word-not-single",
                          "%#x selects %r" % (w, sorted(sel)[:5]), chip=(x, y))
            w3 = R.get_region_for_chip(x, y)
            check(set(chips_of(w3)) == {(x, y)}, "chip-word-default-level",
                  hex(w3), chip=(x, y))
        ctx.mark_nontrivial()
        return "ok"
    if case["kind"] == "invalid":
        x, y, p = case["bad"]
        arg = {tuple(xy): set(cs) for xy, cs in case.get("good", [])}
        arg.pop((x, y), None)
        good = {xy: set(cs) for xy, cs in arg.items()}
        arg[(x, y)] = {p}
        try:
            out = R.compress_flood_fill_regions(arg)
        except ValueError:
            ctx.hit("invalid_rejected")
            # what a rejected call leaves behind: the corrected set, asked
            # for next, selects exactly itself
            if good:
                ctx.hit("valid_call_after_rejected_call")
                # (corrected = some targets dropped as well, one moved)
                keys = sorted(good)
                nxt = {xy: set(good[xy]) for xy in keys[1::2]}
                nxt[((keys[0][0] + 77) % 256, keys[0][1])] = set(
                    good[keys[0]])
                judge_pairs(ctx, list(R.compress_flood_fill_regions(nxt)),
                            nxt)
            return "ok"
        # accepted silently: then it must not select anything real/extra
        raise_sel = [(xy, c) for r, m in out for xy in chips_of(r)
                     for c in range(32) if m >> c & 1]
        check(False, "invalid-target-accepted",
              "target %r gave %r" % (case["bad"], out[:4]), selected=raise_sel[:5])
    if case["kind"] == "staged":
        tree = R.RegionCoreTree()
        so_far = []
        for stage in case["stages"]:
            so_far += stage
            add = list(expand(stage).items())
            random.Random(case["shuffle"]).shuffle(add)
            for (x, y), cs in add:
                for c in sorted(cs):
                    tree.add_core(x, y, c)
            out = list(tree.get_regions_and_coremasks())
            # the order of a raw traversal is not part of the property (the
            # flood-fill entry point sorts); exactness at every stage is
            judge_pairs(ctx, out, expand(so_far), check_order=False)
            ctx.hit("staged_read")
        ctx.mark_nontrivial()
        return "ok"
    if case["kind"] == "reuse":
        targets = expand(case["ops"])
        items = list(targets.items())
        random.Random(case["shuffle"]).shuffle(items)
        arg = {xy: set(cs) for xy, cs in items}
        out = list(R.compress_flood_fill_regions(arg))
        judge_pairs(ctx, out, {xy: set(cs) for xy, cs in arg.items()})
        for e in case["edits"]:
            r = random.Random(e["r"])
            keys = sorted(arg)
            if not keys:
                break
            how = e["how"]
            if how == "strike":
                # cores struck off some chips; the number of chips stays
                for xy in r.sample(keys, max(1, len(keys) // 3)):
                    if len(arg[xy]) > 1:
                        arg[xy].discard(r.choice(sorted(arg[xy])))
            elif how == "swap_chip":
                xy = r.choice(keys)
                new = (r.randrange(256), r.randrange(256))
                if new not in arg:
                    arg[new] = arg.pop(xy)
            elif how == "add_core":
                arg[r.choice(keys)].add(r.randrange(18))
            elif how == "drop_chip":
                if len(keys) > 1:
                    del arg[r.choice(keys)]
            elif how == "add_chip":
                arg[(r.randrange(256), r.randrange(256))] = {r.randrange(18)}
            elif how == "replace_set":
                arg[r.choice(keys)] = set(r.sample(range(18), r.randint(1, 4)))
            if e["between"]:
                # somebody else's call in between
                R.compress_flood_fill_regions({(1, 2): {3}})
            want = {xy: set(cs) for xy, cs in arg.items() if cs}
            out = list(R.compress_flood_fill_regions(arg))
            ctx.hit("same_dict_again")
            judge_pairs(ctx, out, want)
            check({xy: cs for xy, cs in arg.items() if cs} == want,
                  "argument-mutated", "targets dict changed")
            # the result belongs to the caller
            del out[:]
        ctx.mark_nontrivial()
        return "ok"
    targets = expand(case["ops"])
    items = list(targets.items())
    if case["shuffle"]:
        random.Random(case["shuffle"]).shuffle(items)
    arg = {xy: set(cs) for xy, cs in items}
    out = list(R.compress_flood_fill_regions(arg))
    ctx.hit("decode_compare")
    check(arg == targets, "argument-mutated", "targets dict changed")
    exp, levels, coarse = judge_pairs(ctx, out, targets)
    distinct_sets = len({frozenset(cs) for cs in targets.values()})
    if coarse or distinct_sets >= 3:
        ctx.mark_nontrivial()
    ctx.note(dict(cores_requested=len(exp), pairs_out=len(out),
                  words_per_level=dict(levels)))
    return "ok"
