"""C13 - file-like memory views behave as bounded files and stay in their
region.

Reference model: a fixed-length byte array (the simulated chip's memory is the
backing store) plus a position per view.  Every read/write command that
reaches the simulated machine while an operation on a view runs is recorded
and must lie inside that view's range (confinement is judged on the wire, not
on what the view believes)."""
import struct
import importlib
import warnings

from ..core import check, Violation
from ..sim import machine as M

ID = "C13"
IMPORTS = ['rig.machine_control.machine_controller']
LEVEL = "exploration"
TECHNIQUE = ("reference-model monitor (bounded-file model) over generated "
             "operation histories + wire-level confinement monitor in the "
             "machine model")
LEVEL_TEXT = ("Histories of 5-60 seeks (three origins, negative, beyond the "
              "end), reads (default, zero, huge), writes, slicings (negative, "
              "reversed, out of range, of slices), closes and frees run on "
              "real MemoryIO views over the simulated machine; after each "
              "operation returned bytes, position, warnings, the commands "
              "seen on the wire and the chip's memory are compared with a "
              "bounded-file model. Randomised exploration of histories with "
              "boundary-biased arguments."
              ' A fifth of the allocated cases hold a twin view of a block at the same address on the neighbouring chip; a share of transfers runs with TruncationWarning escalated to an error.')
LEVEL_NOTE = ("Trusted: the bounded-file model and the machine model. "
              "'Operation' means data/position operations (read, write, seek, "
              "tell, flush, address): len() and slicing of a closed view, "
              "close() of a freed view and free() of a closed-but-not-freed "
              "root are not required to fail.")
RULE = ("one case = one root view (base address, length) and a history of "
        "5-60 operations over it and up to 6 slices; non-trivial = the "
        "history contains a transfer truncated at a view's end or attempted "
        "from a position outside the view, and at least one slice of a "
        "slice; distinct by case")
ASSUMPTIONS = [
    "when the position is outside [0, len] a transfer may raise without I/O "
    "or transfer nothing",
    "a seek is judged by tell() afterwards: start -> n, current -> pos+n, "
    "end -> len+n; raising ValueError/OSError for a negative target while "
    "leaving the position unchanged is also accepted",
    "slice bounds follow Python slice clipping (step None or 1)",
]
FLOORS = {"truncation_raised_as_error": 50, "op_inside_controller_context": 5000, "stock_warning_filters": 5000, "views_for_vertices": 80, "cleared_allocation": 100, "failed_transfer": 100, "op_checked": 5000, "confinement_checked": 1500,
          "truncated_transfer": 200, "outside_position_transfer": 100,
          "closed_or_freed_op": 200, "slice_checked": 500,
          "twin_view_same_address_other_chip": 200, "twin_view_freed_first": 100,
          "twin_view_outlives": 100}
ANCHORS = [("rig.machine_control.machine_controller", "SlicedMemoryIO.read",
            {"read_truncated": "n_bytes = new_n_bytes"}),
           ("rig.machine_control.machine_controller", "SlicedMemoryIO.write",
            {"write_truncated": "bytes = bytes[:n_bytes]"}),
           ("rig.machine_control.machine_controller",
            "SlicedMemoryIO.__getitem__",
            {"negative_start": "self._end_address + sl.start)",
             "negative_stop": "self._end_address + sl.stop)"})]
SHARDS = {"quick": 16, "thorough": 64}
CLASSES = ["mixed", "seeky", "slicy", "lifecycle", "tiny"]
KF_KEY = "seek-from-end-sign"


def plan(tier):
    n = 2500 if tier == "quick" else 200000
    return [(c, n) for c in CLASSES] + \
        [("huge", 8 if tier == "quick" else 300)]


def gen_huge(rng):
    """Allocations of megabytes (a neural network's weight matrices are):
    whole and partial transfers far beyond a megabyte, through the view of
    the allocation and through large slices of it that end short of it."""
    MiB = 1 << 20
    length = rng.choice([MiB + 1, MiB + MiB // 2, 2 * MiB + 17, 3 * MiB - 5,
                         rng.randint(MiB, 3 * MiB)])
    ops = []
    n_views = 1
    for _ in range(rng.randint(3, 6)):
        v = rng.randrange(n_views)
        k = rng.random()
        if k < .25:
            ops.append(("seek", v, rng.choice([0, 1, 4, 1000, MiB - 1, MiB,
                                               rng.randrange(MiB // 2)]), 0))
        elif k < .6:
            ops.append(("read", v, rng.choice(
                [None, MiB + 1, MiB + MiB // 2, length - 5, 2 * MiB - 1,
                 rng.randint(MiB + 1, length)])))
        elif k < .85 and n_views < 4:
            ops.append(("slice", v, rng.choice([None, 0, 3, 4096,
                                                rng.randrange(MiB // 4)]),
                        rng.choice([None, -1, -4, -rng.randint(1, 200000),
                                    length - rng.randint(1, 5000)]), None))
            n_views += 1
        elif k < .93:
            ops.append(("write", v, bytes([rng.randrange(1, 256)]) *
                        (MiB + rng.choice([1, 33, 4096]))))
        else:
            ops.append((rng.choice(["tell", "len", "address"]), v))
    ops.append(("read", rng.randrange(n_views), None))
    return dict(length=length, base=0x60200000 + 4 * rng.randrange(1000),
                buf=rng.choice([256, 256, 512]), ops=ops, huge=True,
                seed=4 * rng.randrange(1 << 28) + 2)


def gen(cls, idx, rng, tier):
    if cls == "huge":
        return gen_huge(rng)
    length = rng.choice([0, 1, 2, 3, 5, 16, 63, 64, 100, 257,
                         rng.randint(0, 600)])
    if cls == "tiny":
        length = rng.randint(0, 4)
    elif rng.random() < .01:
        length = rng.choice([65535, 65536, 65537, 70001])   # past 16 bits
    elif rng.random() < .06:
        length = rng.choice([1024, 2048, 4096, 1500, 3000,
                             rng.randint(1000, 5000)])
    base = 0x60200000 + 4 * rng.randrange(1000) + \
        (rng.randrange(4) if length < 1000 or rng.random() < .3 else 0)
    via_alloc = rng.random() < .4
    if via_alloc:
        base = None
    n_views = 1
    ops = []
    closed = set()
    for _ in range(rng.randint(5, 60)):
        v = rng.randrange(n_views)
        k = rng.random()
        edge = [0, 1, -1, length, length - 1, length + 1, -length, 2 * length,
                -length - 3, length // 2, rng.randint(-700, 700)]
        if cls == "seeky" and k < .45 or k < .22:
            ops.append(("seek", v, rng.choice(edge), rng.choice([0, 1, 2, 0,
                                                                 1, 2, 3])))
        elif k < .42:
            n = rng.choice([None, -1, -2, -100, 0, 1, 3, length, length + 5,
                            10 ** 6,
                            rng.randint(0, 300)])
            ops.append(("read", v, n))
        elif k < .62:
            n = rng.choice([0, 1, 2, 7, length, length + 1, 3 * length + 2,
                            rng.randint(0, 300)])
            pat = rng.random()
            if length >= 1000 and rng.random() < .5:
                n = rng.choice([length, 1024, 1028, 2048, length - 4,
                                rng.randint(900, length)])
            if length >= 1000 and pat < .3:
                # (word-aligned as a rule: that is where a machine-side
                # fill could stand in for the transfer)
                pat = 0
                if rng.random() < .7:
                    ops.append(("seek", v, 4 * rng.randrange(3), 0))
                    n -= n % 4
            if pat < .12:
                # a region cleared or preset: one byte value all through
                data = bytes([rng.choice([0, 0xff, 0x01, rng.getrandbits(8)])
                              ]) * min(n, 5000)
            elif pat < .18:
                data = (bytes(rng.getrandbits(8) for _ in range(4)) *
                        (min(n, 5000) // 4 + 1))[:min(n, 5000)]
            else:
                data = bytes(rng.getrandbits(8)
                             for _ in range(min(n, 1500)))
            ops.append(("write", v, data))
        elif (cls == "slicy" and k < .9 or k < .75) and n_views < 7:
            s = rng.choice([None] + edge)
            e = rng.choice([None] + edge)
            step = None if rng.random() < .93 else rng.choice([1, 2, -1])
            ops.append(("slice", v, s, e, step))
            if step in (None, 1):
                n_views += 1
        elif k < .8:
            ops.append((rng.choice(["tell", "len", "address", "flush"]), v))
        elif cls == "lifecycle" and k < .88 or k < .815:
            ops.append((rng.choice(["close", "close", "with", "with_raise"]),
                        v))
        elif cls == "lifecycle" and k < .91 or k < .82:
            ops.append(("free",))
        else:
            ops.append(("index", v, rng.randint(-3, 3)))
    if n_views > 1 and rng.random() < .25:
        # the application keeps only slices: its last reference to the view
        # of the whole allocation goes away while slices are still in use
        at = rng.randrange(len(ops) + 1)
        of_root = [i for i, o in enumerate(ops)
                   if o[0] == "slice" and o[1] == 0]
        ops.insert(max(at, of_root[-1] + 1), ("forget_root",))
    if rng.random() < .35:
        # some transfers are attempted while the machine does not answer
        for i, o in enumerate(ops):
            if o[0] in ("read", "write") and rng.random() < .25:
                ops[i] = ("net_down",) + o
    return dict(length=length, base=base, buf=rng.choice([16, 64, 256]),
                ops=ops, seed=rng.randrange(1 << 30))


class View(object):
    def __init__(self, obj, start, end, depth):
        self.obj, self.start, self.end, self.pos = obj, start, end, 0
        self.closed = False
        self.depth = depth

    def __len__(self):
        return self.end - self.start


def run(case, ctx):
    import random
    length = case["length"]
    # a twin: the same application holds a block on the neighbouring chip as
    # well (every chip's heap starts at the same address, so the twin's
    # block usually has the very address of this one)
    twin_case = bool(case["base"] is None and length and
                     case["seed"] % 5 == 2 and not case.get("huge"))
    m = M.Machine(2 if twin_case else 1, 1, buffer_size=case["buf"])
    chip = m.chips[(0, 0)]
    r = M.Rig(m)
    mc, mcm = r.mc, r.mcm
    rng = random.Random(case["seed"])
    twin = None
    if case["base"] is None and length and case["seed"] % 5 == 1:
        # the view is one of several handed out by the helper that allocates
        # a block per placed vertex
        mu = importlib.import_module("rig.machine_control.utils")
        rp = importlib.import_module("rig.place_and_route")
        own = case["seed"] % 2 == 0
        sd, co = ("sdram-bytes", ("cores",)) if own else (rp.SDRAM, rp.Cores)
        kw = dict(sdram_resource=sd, cores_resource=co) if own else {}
        sizes = {"v0": length, ("v", 1): 4 * rng.randint(1, 20), "v2": None,
                 3: rng.randint(1, 50)}
        cores = dict(zip(sizes, rng.sample(range(1, 17), 4)))
        allocations = {}
        for v, n in sizes.items():
            allocations[v] = {co: slice(cores[v], cores[v] + rng.randint(1, 2))}
            if n is not None:
                at = rng.randrange(0, 1000, 4)
                allocations[v][sd] = slice(at, at + n)
            if own and rng.random() < .5:
                allocations[v][rp.SDRAM] = slice(0, 7)      # a decoy
        placements = {v: (0, 0) for v in sizes}
        as_tag = case["seed"] % 3 != 0
        cleared_v = case["seed"] % 7 < 3
        junk = bytes(1 + rng.getrandbits(8) % 255 for _ in range(length + 400))
        heap0 = chip.heap
        chip.wr(heap0, junk, log=False)
        if not as_tag:
            kw["core_as_tag"] = False
        if cleared_v:
            kw["clear"] = True
        with mc(app_id=30):
            got = mu.sdram_alloc_for_vertices(mc, placements, allocations,
                                              **kw)
        ctx.hit("views_for_vertices")
        want_v = {v for v, n in sizes.items() if n is not None}
        check(set(got) == want_v, "vertex-views",
              "views for %r, vertices with memory %r" %
              (sorted(got, key=repr), sorted(want_v, key=repr)))
        spans = []
        for v in want_v:
            io = got[v]
            rec = chip.allocs.get(io.address)
            check(isinstance(io, mcm.MemoryIO) and rec is not None and
                  rec[0] == sizes[v] and len(io) == sizes[v] and
                  rec[1] == (cores[v] if as_tag else 0) and rec[2] == 30,
                  "vertex-view-block",
                  "vertex %r (size %d, first core %d): view at %#x of length "
                  "%d over the machine's block %r (size, tag, app)" %
                  (v, sizes[v], cores[v], io.address, len(io), rec))
            spans.append((io.address, io.address + sizes[v]))
            if cleared_v:
                check(chip.rd(io.address, sizes[v]) == bytes(sizes[v]),
                      "allocation-not-cleared", "vertex %r" % (v,))
            else:
                # "If False (the default) the memory will be left as-is"
                o = io.address - heap0
                check(chip.rd(io.address, sizes[v]) == junk[o:o + sizes[v]],
                      "allocation-contents-changed",
                      "vertex %r: the block was not left as it was" % (v,))
        spans.sort()
        check(all(a[1] <= b[0] for a, b in zip(spans, spans[1:])),
              "vertex-views-overlap", repr(spans))
        root_obj = got["v0"]
        base = root_obj.address
    elif case["base"] is None:
        cleared = length and case["seed"] % 3 == 0
        if cleared:
            # the heap holds leftovers; the caller asks for a zeroed block
            junk = bytes(1 + rng.getrandbits(8) % 255
                         for _ in range(length + 256))
            chip.wr(chip.heap - 64, junk, log=False)
            h0 = chip.heap
        opts = dict(x=0, y=0, app_id=30, **(dict(clear=True) if cleared
                                            else {}))
        if length and case["seed"] % 2:
            # the chip, the application and the clear switch reach the call
            # through an enclosing block instead of as keywords
            ctx.hit("allocation_options_through_context")
            with mc(**opts):
                root_obj = mc.sdram_alloc_as_filelike(length)
        else:
            root_obj = mc.sdram_alloc_as_filelike(
                max(length, 0) or 0, **opts) if length else None
        if twin_case and root_obj is not None:
            first = case["seed"] % 3 == 0
            twin = mc.sdram_alloc_as_filelike(length, x=1, y=0, app_id=30)
            twin_base = twin.address
            if twin_base == root_obj.address:
                ctx.hit("twin_view_same_address_other_chip")
        if cleared:
            ctx.hit("cleared_allocation")
            a = root_obj.address
            check(chip.rd(a, length) == bytes(length), "allocation-not-cleared",
                  "a block of %d bytes allocated with clear=True holds "
                  "non-zero bytes" % length)
            check(a == h0 and chip.rd(a - 64, 64) == junk[:64] and
                  chip.rd(a + ((length + 3) & ~3), 64) ==
                  junk[64 + ((length + 3) & ~3):][:64],
                  "clearing-touched-neighbours",
                  "bytes around the cleared block changed")
        if root_obj is None:        # zero-size allocations are refused
            base = 0x60200000
            chip.allocs[base] = (0, 0, 30)
            root_obj = mcm.MemoryIO(mc, 0, 0, base, base)
        else:
            base = root_obj.address
    else:
        base = case["base"]
        chip.allocs[base] = (length, 0, 30)
        root_obj = mcm.MemoryIO(mc, 0, 0, base, base + length)
    # surround and fill the region with recognisable bytes
    if case.get("huge"):
        # (islands of them: the memory model keeps one entry per byte)
        ctx.hit("megabyte_view")
        marks = [base - 64, base + length - 64] + \
            [base + k - 64 for k in range(1 << 20, length, 1 << 20)] + \
            [base + rng.randrange(length) for _ in range(40)]
        for a in marks:
            chip.wr(a, bytes(1 + rng.getrandbits(8) % 255
                             for _ in range(128)), log=False)
    else:
        chip.wr(base - 64,
                bytes(rng.getrandbits(8) for _ in range(length + 128)),
                log=False)
    views = [View(root_obj, base, base + length, 0)]
    freed = False
    trunc = outside = slice_of_slice = 0
    trace = []

    def wire():
        """read/write commands seen by the machine since the mark"""
        out = []
        for cmd, (x, y, p), a, payload in m.cmds[mark[0]:]:
            if cmd in (M.CMD["read"], M.CMD["write"], M.CMD["fill"]):
                check((x, y, p) == (0, 0, 0), "view-addressed-another-core",
                      "command %d of a view on chip (0, 0) went to %r" %
                      (cmd, (x, y, p)))
            if cmd in (M.CMD["read"], M.CMD["write"]):
                out.append((cmd, a[0], a[1]))
            elif cmd == M.CMD["fill"]:
                out.append((cmd, a[0], a[2]))
        return out
    mark = [0]

    # a second, unrelated view alive on the same controller (another
    # allocation of the application): the two never influence each other
    other = None
    if case["seed"] % 4 == 3 and not case.get("huge"):
        ob = (base + length + 64 + 3 & ~3) + 512
        other = mcm.MemoryIO(mc, 0, 0, ob, ob + 40)
        other_pos = 0
        ctx.hit("sibling_view_alive")
    forgotten = False
    twin_gone = False

    def twin_works(when):
        chip1 = m.chips[(1, 0)]
        try:
            twin.seek(0)
            n = twin.write(b"tw")
            check(n == min(2, length) and
                  chip1.rd(twin_base, n) == b"tw"[:n], "sibling-view-write",
                  "the view of the block on the neighbouring chip, %s" % when)
        except Violation:
            raise
        except Exception as e:
            raise Violation("sibling-view-failed", "the view of the block on "
                            "the neighbouring chip (same address), %s: %s: %s"
                            % (when, type(e).__name__, e))
    for opi, op in enumerate(case["ops"]):
        if twin is not None and not twin_gone and \
                opi == len(case["ops"]) // 2 and case["seed"] % 2:
            # the application is done with the block on the other chip
            try:
                (twin.free if case["seed"] % 4 == 1 else twin.close)()
            except Exception as e:
                raise Violation("sibling-view-failed", "free/close of the "
                                "view on the neighbouring chip: %s: %s" %
                                (type(e).__name__, e))
            twin_gone = True
            ctx.hit("twin_view_freed_first")
        if other is not None:
            try:
                now = other.tell()
                check(now == other_pos, "sibling-view-position",
                      "another view of the same controller was left at %d "
                      "and is now at %d (after %r on this one)" %
                      (other_pos, now, trace[-1:] and trace[-1]))
                other_pos = (other_pos * 7 + 3) % 37
                other.seek(other_pos)
                if other_pos % 5 == 0:
                    other.write(b"\x5a\xa5")
                    other_pos += 2
                    check(chip.rd(ob + other_pos - 2, 2) == b"\x5a\xa5",
                          "sibling-view-write", "bytes written through the "
                          "other view are not at its position")
            except Violation:
                raise
            except Exception as e:
                raise Violation("sibling-view-failed", "%s: %s" %
                                (type(e).__name__, e))
        if op[0] == "forget_root":
            if not freed and len(views) > 1:
                import gc
                views[0].obj = None
                root_obj = None
                gc.collect()
                forgotten = True
                ctx.hit("root_view_forgotten")
            continue
        if forgotten and (op[0] == "free" or (len(op) > 1 and op[1] == 0) or
                          (op[0] == "net_down" and op[2] == 0)):
            continue        # nothing left to call these on
        net_down = op[0] == "net_down"
        if net_down:
            op = op[1:]
            r.net.plan = lambda net, sock, data, n: [("lost",)]
        kind = op[0]
        trace.append((("net down",) if net_down else ()) +
                     (op if kind != "write" else ("write", op[1],
                                                  len(op[2]))))
        mark[0] = len(m.cmds)
        chip.writes = []
        del m.protocol_errors[:]
        v = views[op[1]] if len(op) > 1 else views[0]
        dead = freed or v.closed
        where = dict(op=trace[-1], view=(v.start - base, v.end - base),
                     pos=v.pos, trace=trace[-5:])
        caught = []
        try:
            with warnings.catch_warnings(record=True) as caught:
                if case["seed"] % 4 == 2 and kind in ("read", "write") and \
                        len(trace) % 3 == 0 and not net_down:
                    # the docstrings' own suggestion for callers who want
                    # truncation to be an error
                    warnings.simplefilter("always")
                    warnings.simplefilter("error", mcm.TruncationWarning)
                elif case["seed"] % 4:
                    warnings.simplefilter("always")
                else:
                    # the interpreter's stock filters (and whatever
                    # importing the library did to them): a truncation
                    # warning is a RuntimeWarning, shown by default
                    ctx.hit("stock_warning_filters")
                if case["seed"] % 3 == 1 and len(trace) % 2:
                    # the application is inside a block that names a core
                    # (and perhaps a chip) for its OTHER commands: a view
                    # knows its own chip and always talks to the monitor
                    ctx.hit("op_inside_controller_context")
                    with mc(**[dict(p=3), dict(x=0, y=0, p=7),
                               dict(p=17, app_id=99)][len(trace) % 3]):
                        res = do(op, v, views, mcm)
                else:
                    res = do(op, v, views, mcm)
            exc = None
        except Exception as e:
            res, exc = None, e
        ctx.hit("op_checked")
        if isinstance(exc, mcm.TruncationWarning) and not net_down:
            # truncation reported as an error: whatever was (not)
            # transferred, the view's position and the machine agree about
            # it, and nothing left the view
            ctx.hit("truncation_raised_as_error")
            io = wire()
            moved = sum(n for cmd, a, n in io)
            for cmd, a, n in io:
                check(v.start <= a and a + n <= v.end, "access-outside-view",
                      "[%#x, %#x) by a view covering [%#x, %#x)" %
                      (a, a + n, v.start, v.end), **where)
            try:
                now = v.obj.tell()
            except Exception as ex:
                raise Violation("tell-failed-after-failed-transfer",
                                repr(ex), **where)
            check(now - v.pos == moved, "position-moved-by-failed-transfer"
                  if moved == 0 else "position-after-write",
                  "%s raised TruncationWarning (an error by the caller's "
                  "filter) having transferred %d bytes, tell() went from %d "
                  "to %d" % (kind, moved, v.pos, now), **where)
            v.pos = now
            continue
        if net_down:
            r.net.plan = None
            if isinstance(exc, r.sc.SCPError):
                # nothing was transferred: the view is where it was and the
                # memory holds what it held (no request reached the machine)
                ctx.hit("failed_transfer")
                check(not m.cmds[mark[0]:], "oracle", "command got through")
                try:
                    now = v.obj.tell()
                except Exception as ex:
                    raise Violation("tell-failed-after-failed-transfer",
                                    repr(ex), **where)
                check(now == v.pos, "position-moved-by-failed-transfer",
                      "%s raised %s having transferred nothing, but tell() "
                      "went from %d to %d" % (kind, type(exc).__name__,
                                              v.pos, now), **where)
                continue
        io = wire()
        tw = [w for w in caught if issubclass(w.category,
                                              mcm.TruncationWarning)]
        # ---- confinement: whatever happened, the wire stayed in the view
        for cmd, a, n in io:
            ctx.hit("confinement_checked")
            check(v.start <= a and a + n <= v.end and n > 0 or
                  (n == 0 and v.start <= a <= v.end),
                  "access-outside-view",
                  "%s of [%#x, %#x) issued by a view covering [%#x, %#x)" %
                  ("read" if cmd == M.CMD["read"] else "write", a, a + n,
                   v.start, v.end), **where)
        check(not m.protocol_errors, "malformed-command",
              "; ".join(m.protocol_errors[:2]), **where)
        # ---- operations on closed / freed views fail without I/O
        if kind in ("read", "write", "seek", "tell", "flush", "address") \
                and dead:
            ctx.hit("closed_or_freed_op")
            check(exc is not None, "operation-on-closed-view-succeeded",
                  "%s returned %r on a %s view" %
                  (kind, res, "freed" if freed else "closed"), **where)
            check(not io, "io-on-closed-view", repr(io[:2]), **where)
            continue
        if kind == "free":
            if freed:
                check(exc is not None, "double-free-accepted", "", **where)
            else:
                check(exc is None, "free-failed", repr(exc), **where)
                frees = [c for c in m.cmds[mark[0]:]
                         if c[0] == M.CMD["alloc"] and c[2][0] & 0xff == 1]
                check(len(frees) == 1 and frees[0][2][1] == base,
                      "free-wrong-pointer", repr(frees), **where)
                freed = True
            continue
        if kind in ("close", "with", "with_raise"):
            if not dead:
                check(exc is None, "close-failed", repr(exc), **where)
            if kind == "with" and exc is None and res is not None:
                # the body of the block: on a view closed (or freed) before
                # the block nothing works - entering a block does not bring
                # a closed view back; on an open view the body sees it as
                # it was
                ctx.hit("inside_with_block")
                if dead:
                    check(all(r[0] == "raised" for r in res),
                          "operation-on-closed-view-succeeded",
                          "inside a with-block entered on a %s view: "
                          "tell() / read(0) gave %r" %
                          ("freed" if freed else "closed", res), **where)
                elif 0 <= v.pos <= len(v):
                    check(res[0] == ("ok", v.pos) and res[1] == ("ok", b""),
                          "inside-with-block",
                          "tell() / read(0) inside the block gave %r at "
                          "position %d" % (res, v.pos), **where)
            v.closed = v.closed or exc is None
            if kind.startswith("with") and not freed:
                check(v.obj.closed, "with-block-left-view-open", "", **where)
            continue
        if kind == "len":
            check(exc is None and res == len(v), "len-wrong",
                  "len() = %r, view has %d bytes (%r)" % (res, len(v), exc),
                  **where)
            continue
        if kind == "index":
            check(isinstance(exc, (ValueError, TypeError, IndexError)),
                  "integer-index-accepted", "%r / %r" % (res, exc), **where)
            continue
        if kind == "slice":
            _, _, s, e, step = op
            if step not in (None, 1):
                check(isinstance(exc, ValueError), "stepped-slice-accepted",
                      "%r / %r" % (res, exc), **where)
                continue
            check(exc is None, "slice-failed", repr(exc), **where)
            lo, hi, _ = slice(s, e).indices(len(v))
            hi = max(lo, hi)
            nv = View(res, v.start + lo, v.start + hi, v.depth + 1)
            views.append(nv)
            ctx.hit("slice_checked")
            check(not io, "io-during-slice", repr(io[:2]), **where)
            check(len(res) == hi - lo, "slice-length",
                  "view[%r:%r] of %d bytes has %d bytes, expected %d" %
                  (s, e, len(v), len(res), hi - lo), **where)
            if not freed:
                try:
                    a0 = res.address
                except Exception as ex:
                    raise Violation("slice-address-failed", repr(ex), **where)
                check(a0 == nv.start, "slice-start",
                      "view[%r:%r] starts at offset %d, expected %d" %
                      (s, e, a0 - v.start, lo), **where)
            if nv.depth >= 2:
                slice_of_slice += 1
            continue
        if kind in ("tell", "address"):
            want = v.pos if kind == "tell" else v.start + v.pos
            check(exc is None and res == want, kind + "-wrong",
                  "%s() = %r, expected %r (%r)" % (kind, res, want, exc),
                  **where)
            check(not io, "io-during-" + kind, repr(io[:2]), **where)
            continue
        if kind == "flush":
            check(exc is None and not io, "flush", repr(exc), **where)
            continue
        if kind == "seek":
            _, _, n, whence = op
            check(not io, "io-during-seek", repr(io[:2]), **where)
            try:
                now = v.obj.tell()
            except Exception as ex:
                raise Violation("tell-failed-after-seek", repr(ex), **where)
            if whence not in (0, 1, 2):
                check(isinstance(exc, ValueError) and now == v.pos,
                      "bad-whence-accepted", "%r, tell %r" % (exc, now),
                      **where)
                continue
            want = {0: n, 1: v.pos + n, 2: len(v) + n}[whence]
            if exc is not None:
                check(isinstance(exc, (ValueError, OSError)) and want < 0 and
                      now == v.pos, "seek-raised", "%r (target %d, tell %d)" %
                      (exc, want, now), **where)
                continue
            if now != want:
                if whence == 2 and n != 0 and now == len(v) - n:
                    ctx.finding(
                        "seek-from-end-sign", KF_KEY,
                        "seek(%d, 2) on a %d-byte view gives tell() = %d, "
                        "a file gives %d" % (n, len(v), now, want))
                    v.pos = now     # re-synchronise the model and go on
                    continue
                check(False, "seek-position",
                      "seek(%d, %d) from %d on a %d-byte view gives tell() = "
                      "%d, expected %d" % (n, whence, v.pos, len(v), now,
                                           want), **where)
            v.pos = want
            continue
        # ---- transfers
        inside = 0 <= v.pos <= len(v)
        remaining = len(v) - v.pos if inside else 0
        if kind == "read":
            n = op[2]
            req = remaining if n is None or n < 0 else n
            cnt = min(req, remaining)
            if not inside:
                outside += 1
                ctx.hit("outside_position_transfer")
                check(not io, "io-from-outside-position", repr(io[:2]),
                      **where)
                check(exc is not None or res == b"",
                      "read-from-outside-position",
                      "returned %d bytes" % len(res or b""), **where)
                continue
            check(exc is None, "read-failed", repr(exc), **where)
            want = chip.rd(v.start + v.pos, cnt)
            check(isinstance(res, bytes) and res == want, "read-wrong-bytes",
                  "read(%r) at %d of %d returned %d bytes, expected %d%s" %
                  (n, v.pos, len(v), len(res), cnt,
                   "" if len(res) != cnt else " (content differs)"), **where)
            if req > remaining:
                trunc += 1
                ctx.hit("truncated_transfer")
                check(tw, "truncation-not-warned",
                      "read(%r) with %d bytes left gave no TruncationWarning"
                      % (n, remaining), **where)
            else:
                check(not tw, "spurious-truncation-warning", "", **where)
            got_rd = sum(n_ for c_, a_, n_ in io if c_ == M.CMD["read"])
            check(got_rd == cnt and all(c_ == M.CMD["read"]
                                        for c_, _, _ in io),
                  "read-io-mismatch", "%d bytes fetched for %d returned" %
                  (got_rd, cnt), **where)
            v.pos += cnt
            check(v.obj.tell() == v.pos, "position-after-read",
                  "tell() = %d, expected %d" % (v.obj.tell(), v.pos), **where)
        elif kind == "write":
            data = op[2]
            cnt = min(len(data), remaining)
            if not inside:
                outside += 1
                ctx.hit("outside_position_transfer")
                check(not io and not chip.writes, "io-from-outside-position",
                      repr(io[:2]), **where)
                check(exc is not None or res == 0,
                      "write-from-outside-position",
                      "reported %r bytes written" % (res,), **where)
                continue
            check(exc is None, "write-failed", repr(exc), **where)
            check(res == cnt, "write-count", "write of %d bytes with %d left "
                  "returned %r, expected %d" % (len(data), remaining, res,
                                                cnt), **where)
            if len(data) > remaining:
                trunc += 1
                ctx.hit("truncated_transfer")
                check(tw, "truncation-not-warned", "write of %d bytes with %d "
                      "left gave no TruncationWarning" % (len(data),
                                                          remaining), **where)
            else:
                check(not tw, "spurious-truncation-warning", "", **where)
            have = chip.rd(v.start + v.pos, cnt)
            check(have == data[:cnt], "memory-after-write",
                  "bytes at %d differ from the data written" % v.pos, **where)
            for a, ln in chip.writes:
                check(v.start + v.pos <= a and a + ln <= v.start + v.pos + cnt,
                      "write-outside-transfer", "[%#x, %#x)" % (a, a + ln),
                      **where)
            v.pos += cnt
            check(v.obj.tell() == v.pos, "position-after-write",
                  "tell() = %d, expected %d" % (v.obj.tell(), v.pos), **where)
    if twin is not None and not twin_gone:
        # whatever became of this chip's view (closed, freed, still open),
        # the block on the other chip is still the application's
        twin_works("after the history on this chip's view (freed: %s)" %
                   freed)
        try:
            twin.free()
        except Exception as e:
            raise Violation("sibling-view-failed", "free of the view on the "
                            "neighbouring chip: %s: %s" %
                            (type(e).__name__, e))
        ctx.hit("twin_view_outlives")
    if (trunc or outside) and slice_of_slice:
        ctx.mark_nontrivial()
    ctx.note(dict(length=length, views=len(views), truncated=trunc,
                  outside=outside, freed=freed))
    return "ok"


class _BodyFailed(Exception):
    pass


def do(op, v, views, mcm):
    kind = op[0]
    o = v.obj
    if kind == "seek":
        return o.seek(op[2], op[3])
    if kind == "read":
        return o.read() if op[2] is None else o.read(op[2])
    if kind == "write":
        return o.write(op[2])
    if kind == "slice":
        return o[slice(op[2], op[3], op[4])]
    if kind == "index":
        return o[op[2]]
    if kind == "tell":
        return o.tell()
    if kind == "len":
        return len(o)
    if kind == "address":
        return o.address
    if kind == "flush":
        return o.flush()
    if kind == "close":
        return o.close()
    if kind == "with":
        inside = []
        with o as inner:
            if inner is not o:
                raise AssertionError("__enter__ returned another object")
            # what the block's body sees: the position, and whether data
            # operations are possible at all
            for f in (inner.tell, lambda: inner.read(0)):
                try:
                    inside.append(("ok", f()))
                except Exception as e:
                    inside.append(("raised", type(e).__name__))
        return inside
    if kind == "with_raise":
        # the block is left by an exception: the view is closed all the same
        try:
            with o:
                raise _BodyFailed()
        except _BodyFailed:
            return None
    if kind == "free":
        return views[0].obj.free()
    raise AssertionError(kind)
