"""C14 - probed system description and derived machine model match the
machine.

Ground truth = the simulated machine's state (rv/sim/machine.py); everything
the real controller reports, and everything place-and-route derives from it,
is compared with that state."""
import importlib
import struct

from ..core import check, Violation
from ..sim import machine as M

ID = "C14"
IMPORTS = ['rig.machine_control.machine_controller', 'rig.place_and_route.utils']
LEVEL = "exploration"
TECHNIQUE = ("reference-model monitor: probe results and derived "
             "Machine/constraints compared with the simulated machine's "
             "ground-truth state")
LEVEL_TEXT = ("Generated machine states (1x1 up to 256x256 addressing with "
              "sparse chips, dead and silent chips, chips listed but "
              "unroutable, per-chip link / core-count / core-state patterns "
              "including states shared by every chip, free-memory figures, "
              "router free blocks, Ethernet facts, IOBUF chains of 1-4 "
              "blocks, per-core status blocks, router counters, both version "
              "encodings) are probed by the real controller; every reported "
              "figure, the derived Machine and the generated core "
              "reservations are compared with the model's state."
              ' Console chains of up to 500 buffers; surveys started from a named chip on machines whose boot chip has lost routes.')
LEVEL_NOTE = ("Trusted: the machine model's info / P2P / vcpu / iobuf "
              "layouts (written from sark.struct and the documented reply "
              "formats).")
RULE = ("one case = one machine state with its probes; non-trivial = the "
        "machine has >= 3 responding chips, at least one dead / silent / "
        "unroutable chip or dead link, and at least two distinct core-state "
        "patterns; distinct by case")
ASSUMPTIONS = [
    "a chip is 'responding' when it is in the root chip's P2P table, exists "
    "and answers; silent chips cost the controller its full retry budget "
    "(virtual time)",
    "width/height of the description come from the P2P table (largest listed "
    "coordinate + 1)",
]
FLOORS = {"machine_model_own_resource_names": 50, "own_core_resource": 100, "survey_from_a_named_chip": 20, "iobuf_chain_of_hundreds": 3, "description_iterator_nested": 80, "code_name_compared": 100, "iobuf_non_ascii": 15, "system_info_checked": 150, "chip_info_compared": 1200,
          "machine_model_checked": 150, "core_constraints_checked": 150,
          "processor_status_checked": 150, "iobuf_checked": 150,
          "p2p_table_checked": 100, "unresponsive_chip": 100}
SHARDS = {"quick": 16, "thorough": 64}
CLASSES = ["small", "faulty", "cores", "sparse_big", "iobuf", "tiny"]
RT_NAMES = {0: 'none', 1: 'reset', 2: 'undefined_instruction', 3: 'svc',
            4: 'prefetch_abort', 5: 'data_abort', 6: 'unhandled_irq',
            7: 'unhandled_fiq', 8: 'unconfigured_vic', 9: 'abort',
            10: 'malloc_failure', 11: 'division_by_zero',
            12: 'event_startup_failure', 13: 'software_error',
            14: 'iobuf_failure', 15: 'bad_enable', 16: 'null_pointer',
            17: 'pkt_startup_failure', 18: 'timer_startup_failure',
            19: 'api_startup_failure', 20: 'incompatible_version'}
STATE_NAMES = {0: 'dead', 1: 'power_down', 2: 'runtime_exception',
               3: 'watchdog', 4: 'init', 5: 'wait', 6: 'c_main', 7: 'run',
               8: 'sync0', 9: 'sync1', 10: 'pause', 11: 'exit', 15: 'idle'}
STATES = [0, 1, 2, 3, 4, 5, 6, 7, 8, 9, 10, 11, 15]


def plan(tier):
    n = 80 if tier == "quick" else 7500
    return [(c, n) for c in CLASSES]


def gen(cls, idx, rng, tier):
    if cls == "tiny":
        w, h = rng.choice([(1, 1), (1, 2), (2, 1), (2, 2)])
    elif cls == "sparse_big":
        w, h = rng.choice([(255, 255), (200, 9), (13, 250), (64, 64),
                           (rng.randint(20, 255), rng.randint(20, 255))])
    else:
        w, h = rng.randint(1, 6), rng.randint(1, 6)
    if cls == "sparse_big":
        live = {(0, 0), (w - 1, h - 1)}
        for _ in range(rng.randint(3, 25)):
            live.add((rng.randrange(w), rng.randrange(h)))
    else:
        live = {(x, y) for x in range(w) for y in range(h)}
        if cls in ("faulty", "cores") or rng.random() < .3:
            for _ in range(rng.randint(0, max(1, w * h // 4))):
                live.discard((rng.randrange(w), rng.randrange(h)))
        live.add((0, 0))
    live = sorted(live)
    silent, unlisted, ghosts = [], [], []
    if cls in ("faulty", "sparse_big") or rng.random() < .3:
        cand = [c for c in live if c != (0, 0)]
        rng.shuffle(cand)
        silent = cand[:rng.randint(0, min(2, len(cand)))]
        unlisted = cand[2:2 + rng.randint(0, 1)]
        for _ in range(rng.randint(0, 2)):
            g = (rng.randrange(w), rng.randrange(h))
            if g not in live:
                ghosts.append(g)
    # core-state patterns
    shared_busy = sorted(rng.sample(range(1, 17), rng.randint(0, 3)))
    chips = {}
    for xy in live:
        nc = rng.choice([18, 18, 18, 17, 16, rng.randint(1, 18)])
        st = [7] + [15] * (nc - 1)
        for c in shared_busy:
            if c < nc:
                st[c] = rng.choice([7, 5, 2])
        if cls == "cores" or rng.random() < .4:
            for _ in range(rng.randint(0, 6)):
                st[rng.randrange(nc)] = rng.choice(STATES)
        if rng.random() < .1:
            st[0] = 15
        links = [l for l in range(6) if rng.random() > (
            .3 if cls == "faulty" else .05)]
        chips[xy] = dict(
            ncores=nc, states=st, links=links,
            sdram=rng.choice([0, 1, 119275492, rng.getrandbits(27)]),
            sram=rng.choice([0, 22240, rng.getrandbits(15)]),
            holes=[(rng.randint(1, 900), rng.randint(1, 120))
                   for _ in range(rng.randint(0, 3))],
            eth_up=rng.random() < .2, ip=rng.getrandbits(32),
            local_eth=(rng.randrange(w), rng.randrange(h)))
    if cls != "cores" and rng.random() < .5:
        # uniform machine: everything equal (no exceptions expected)
        first = chips[live[0]]
        for xy in live:
            chips[xy].update(ncores=first["ncores"], sdram=first["sdram"],
                             sram=first["sram"],
                             states=list(first["states"]))
    probes = []
    pool = [c for c in live if c not in silent and c not in unlisted]
    for _ in range(rng.randint(1, 3)):
        xy = rng.choice(pool)
        p = rng.randrange(chips[xy]["ncores"])
        nblk = rng.randint(0, 4) if cls == "iobuf" else rng.randint(0, 2)
        if cls == "iobuf" and rng.random() < .08:
            # a console that was written to for a long time: a chain of
            # hundreds of buffers
            nblk = rng.choice([127, 128, 129, 130, 200, 256, 257, 300, 500])
        probes.append(dict(
            chip=xy, p=p, seed=rng.randrange(1 << 30),
            iobuf=[rng.randint(0, 64) for _ in range(nblk)],
            name=rng.choice(["app", "sixteen-chars-ok!", "", "a" * 15,
                             "caf\xe9-\u03c0", "\u4e2d\u6587"])))
    ver = rng.choice([(3, 0, 1), (1, 33, 0), (2, 0, 0), (10, 20, 30)])
    legacy = rng.random() < .3
    if legacy:
        ver = (ver[0] % 600, ver[1] % 100, 0)
    return dict(w=w, h=h, chips=sorted(chips.items()), silent=silent,
                unlisted=unlisted, ghosts=ghosts, probes=probes, version=ver,
                legacy=legacy,
                labels="" if legacy else rng.choice(["", "-dev", "-rc1+x"]),
                buf=rng.choice([128, 256]), iobuf_size=64,
                diag=[rng.getrandbits(32) for _ in range(16)])


def build_sim(case):
    chips = dict((tuple(xy), d) for xy, d in case["chips"])
    m = M.Machine(case["w"], case["h"], only=list(chips),
                  buffer_size=case["buf"], version=tuple(case["version"]),
                  legacy_version=case["legacy"], labels=case["labels"])
    for xy, d in chips.items():
        c = m.chips[xy]
        c.ncores = d["ncores"]
        c.core_state = list(d["states"])
        c.core_app = [0] * d["ncores"]
        c.core_image = [None] * d["ncores"]
        c.links = set(d["links"])
        c.sdram_free, c.sram_free = d["sdram"], d["sram"]
        for pos, ln in d["holes"]:
            for i in range(pos, min(1024, pos + ln)):
                c.router[i] = (1, i, 0xffffffff, 9, 0)
        c.eth_up, c.ip = d["eth_up"], d["ip"]
        c.local_eth = tuple(d["local_eth"])
        c.iobuf_size = case["iobuf_size"]
        c.silent = xy in {tuple(s) for s in case["silent"]}
    m.p2p_extra_none = {tuple(c) for c in case["unlisted"]}
    m.p2p_extra = {tuple(c) for c in case["ghosts"]}
    if (case["w"] + case["h"] + case["buf"]) % 2:
        m.diversify(case["buf"])    # chips disagree on sv pointers
    else:
        m.finalise()
    return m, chips


def run_empty(ctx):
    """a description without any chip (nothing answered)"""
    mcm = importlib.import_module("rig.machine_control.machine_controller")
    pr_utils = importlib.import_module("rig.place_and_route.utils")
    par = importlib.import_module("rig.place_and_route")
    for w, h in ((0, 0), (3, 2)):
        si = mcm.SystemInfo(w, h)
        machine = pr_utils.build_machine(si)
        check((machine.width, machine.height) == (w, h) and
              list(machine) == [] and
              machine.chip_resources.get(par.Cores) == 0,
              "empty-machine-model", "%r %r" % (list(machine),
                                                machine.chip_resources))
        check(set(machine.dead_chips) == {(x, y) for x in range(w)
                                          for y in range(h)},
              "empty-machine-dead-chips", repr(machine.dead_chips))
        check(pr_utils.build_core_constraints(si) == [],
              "empty-machine-constraints", "")
    ctx.hit("empty_description")


def run(case, ctx):
    import random
    if case.get("w") == 1 and case.get("h") == 1 and not case["probes"][0]["iobuf"]:
        run_empty(ctx)
    m, chips = build_sim(case)
    r = M.Rig(m, n_tries=2, timeout=0.1)
    mc, mcm = r.mc, r.mcm
    consts = importlib.import_module("rig.machine_control.consts")
    pr_utils = importlib.import_module("rig.place_and_route.utils")
    rt_utils = importlib.import_module("rig.routing_table.utils")
    par = importlib.import_module("rig.place_and_route")
    from rig.links import Links
    w, h = case["w"], case["h"]
    silent = {tuple(c) for c in case["silent"]}
    unlisted = {tuple(c) for c in case["unlisted"]}
    ghosts = {tuple(c) for c in case["ghosts"]}
    listed = (set(chips) - unlisted) | ghosts
    responding = set(chips) - unlisted - silent
    # --------------------------------------------------------- version
    info = mc.get_software_version(0, 0, 0)
    check(tuple(info.software_version) == tuple(case["version"]) and
          info.buffer_size == case["buf"] and
          info.version_string == "SC&MP/SpiNNaker" and
          info.software_version_labels == case["labels"] and
          tuple(info.position) == (0, 0),
          "software-version", "%r for version %r labels %r legacy=%r" %
          (info, case["version"], case["labels"], case["legacy"]))
    # ------------------------------------------------------------ P2P
    ctx.hit("p2p_table_checked")
    tbl = mc.get_p2p_routing_table(0, 0)
    check(set(tbl) == {(x, y) for x in range(w) for y in range(h)},
          "p2p-table-keys", "%d entries for %dx%d" % (len(tbl), w, h))
    root = m.chips[(0, 0)]
    for (x, y), e in tbl.items():
        want = m.p2p_entry(root, x, y)
        if int(e) != want:
            check(False, "p2p-table-entry", "(%d,%d): %r, table holds %d" %
                  (x, y, e, want))
    # ---------------------------------------------------- system info
    start = None
    cand = sorted(responding - {(0, 0)})
    if cand and len(chips) >= 4 and (w * 7 + h * 3 + len(cand)) % 3 == 0:
        # "a very broken machine": the boot chip has lost its routes to a
        # part of the machine, another chip still knows them all - the
        # caller names that chip as the one to ask
        start = cand[(w + h) % len(cand)]
        m.p2p_blind = {(0, 0): set(sorted(set(chips) - {(0, 0), start})[
            (w + h) % 2::2])}
        m.finalise()
        ctx.hit("survey_from_a_named_chip")
    try:
        if start is None:
            si = mc.get_system_info()
        elif (w + h) % 2:
            si = mc.get_system_info(start[0], start[1])
        else:
            si = mc.get_system_info(y=start[1], x=start[0])
    except Exception as e:
        raise Violation("unexpected-exception", "get_system_info: %s: %s" %
                        (type(e).__name__, e))
    if start is not None:
        m.p2p_blind = {}
        m.finalise()
    ctx.hit("system_info_checked")
    ctx.hit("unresponsive_chip", len(silent) + len(ghosts))
    ew = max(x for x, y in listed) + 1
    eh = max(y for x, y in listed) + 1
    check((si.width, si.height) == (ew, eh), "system-dimensions",
          "%r, P2P table lists chips up to %r" % ((si.width, si.height),
                                                  (ew, eh)))
    check(set(si) == responding, "responding-chips",
          "missing %r, extra %r" % (sorted(responding - set(si))[:5],
                                    sorted(set(si) - responding)[:5]),
          silent=sorted(silent), unlisted=sorted(unlisted))
    for xy in responding:
        ci, d, c = si[xy], chips[xy], m.chips[xy]
        ctx.hit("chip_info_compared")
        ip = ".".join(str((d["ip"] >> s) & 0xff) for s in (0, 8, 16, 24))
        want = dict(
            num_cores=d["ncores"], core_states=[int(s) for s in d["states"]],
            working_links=set(d["links"]),
            largest_free_sdram_block=d["sdram"],
            largest_free_sram_block=d["sram"],
            largest_free_rtr_mc_block=c.largest_free_rtr_block(),
            ethernet_up=d["eth_up"], ip_address=ip,
            local_ethernet_chip=tuple(d["local_eth"]))
        got = dict(
            num_cores=ci.num_cores,
            core_states=[int(s) for s in ci.core_states],
            working_links={int(l) for l in ci.working_links},
            largest_free_sdram_block=ci.largest_free_sdram_block,
            largest_free_sram_block=ci.largest_free_sram_block,
            largest_free_rtr_mc_block=ci.largest_free_rtr_mc_block,
            ethernet_up=ci.ethernet_up, ip_address=ci.ip_address,
            local_ethernet_chip=tuple(ci.local_ethernet_chip))
        for k in want:
            check(got[k] == want[k], "chip-info-" + k,
                  "chip %r: reported %r, machine has %r" % (xy, got[k],
                                                            want[k]))
        check(all(isinstance(s, consts.AppState) for s in ci.core_states),
              "chip-info-state-type", repr(ci.core_states[:3]))
        check(all(s.name == STATE_NAMES[int(s)] for s in ci.core_states),
              "chip-info-state-name", repr(ci.core_states[:6]))
    # helper views of the description: each is an iterator the application
    # may give up early or run twice at the same time
    for name in ("chips", "links", "cores", "dead_chips", "dead_links",
                 "ethernet_connected_chips"):
        it = getattr(si, name)()
        first = next(iter(it), None)
        del it
        a = list(getattr(si, name)())
        if first is not None and len(a) <= 40:
            pairs = sum(1 for _ in getattr(si, name)()
                        for _ in getattr(si, name)())
            ctx.hit("description_iterator_nested")
            check(pairs == len(a) ** 2 and a[0] == first,
                  "description-iterator",
                  "%s(): %d items, a nested pair of walks gives %d pairs, "
                  "an abandoned walk began with %r, a full one with %r" %
                  (name, len(a), pairs, first, a[0]))
    check(set(si.dead_chips()) == {(x, y) for x in range(ew)
                                   for y in range(eh)} - responding,
          "dead-chips", repr(sorted(si.dead_chips())[:6]))
    want_links = {(x, y, l) for (x, y) in responding
                  for l in chips[(x, y)]["links"]}
    check({(x, y, int(l)) for x, y, l in si.links()} == want_links,
          "working-links", "")
    check({(x, y, int(l)) for x, y, l in si.dead_links()} ==
          {(x, y, l) for (x, y) in responding for l in range(6)} - want_links,
          "dead-links", "")
    check(dict(si.ethernet_connected_chips()) ==
          {xy: si[xy].ip_address for xy in responding if chips[xy]["eth_up"]},
          "ethernet-chips", repr(sorted(si.ethernet_connected_chips())[:4]))
    check({(x, y, p, int(s)) for x, y, p, s in si.cores()} ==
          {(xy[0], xy[1], p, s) for xy in responding
           for p, s in enumerate(chips[xy]["states"])}, "cores-iterator", "")
    # membership questions about chips, links, cores and core states
    qrng = random.Random(len(responding) * 977 + ew)
    for _ in range(60):
        x, y = qrng.randrange(-1, ew + 1), qrng.randrange(-1, eh + 1)
        d = chips.get((x, y)) if (x, y) in responding else None
        l, p = qrng.randrange(6), qrng.randrange(-1, 20)
        st = qrng.choice(list(consts.AppState))
        ctx.hit("membership_question")
        for q, want in (
                ((x, y), d is not None),
                ((x, y, Links(l)), d is not None and l in d["links"]),
                ((x, y, p), d is not None and 0 <= p < d["ncores"]),
                ((x, y, p, st), d is not None and 0 <= p < d["ncores"] and
                 d["states"][p] == int(st))):
            try:
                got = q in si
            except Exception as e:
                got = "%s: %s" % (type(e).__name__, e)
            check(got is want, "membership-answer",
                  "%r in system_info -> %r, machine says %r" % (q, got, want))
    # ---------------------------------------------------- machine model
    machine = pr_utils.build_machine(si)
    ctx.hit("machine_model_checked")
    check((machine.width, machine.height) == (ew, eh), "machine-dimensions",
          repr((machine.width, machine.height)))
    check(set(machine) == responding, "machine-chips",
          "model has %r, responding %r" %
          (sorted(set(machine) ^ responding)[:6], len(responding)))
    for xy in responding:
        d = chips[xy]
        res = machine[xy]
        check(res.get(par.Cores) == d["ncores"] and
              res.get(par.SDRAM) == d["sdram"] and
              res.get(par.SRAM) == d["sram"] and len(res) == 3,
              "machine-chip-resources", "chip %r: %r, machine has cores %d "
              "sdram %d sram %d" % (xy, res, d["ncores"], d["sdram"],
                                    d["sram"]))
    check({(x, y, int(l)) for x, y, l in machine.iter_links()} == want_links,
          "machine-links",
          repr(sorted({(x, y, int(l)) for x, y, l in machine.iter_links()} ^
                      want_links)[:6]))
    if (w + 2 * h + len(responding)) % 3 == 0:
        # the same model under the caller's own names for the resources (by
        # keyword, or by position in the documented order)
        names = dict(core_resource=("my", "cores"), sdram_resource="heap",
                     sram_resource=("sram", 1))
        m2 = pr_utils.build_machine(si, **names) if (w + h) % 2 else \
            pr_utils.build_machine(si, names["core_resource"],
                                   names["sdram_resource"],
                                   names["sram_resource"])
        ctx.hit("machine_model_own_resource_names")
        check(set(m2) == responding and
              (m2.width, m2.height) == (ew, eh) and
              {(x, y, int(l)) for x, y, l in m2.iter_links()} == want_links,
              "machine-chips", "model built with own resource names differs "
              "in chips / links")
        for xy in responding:
            d = chips[xy]
            check(dict(m2[xy]) == {names["core_resource"]: d["ncores"],
                                   names["sdram_resource"]: d["sdram"],
                                   names["sram_resource"]: d["sram"]},
                  "machine-chip-resources", "own resource names, chip %r: %r; "
                  "machine has cores %d sdram %d sram %d" %
                  (xy, m2[xy], d["ncores"], d["sdram"], d["sram"]))
    import warnings as _w
    with _w.catch_warnings():
        _w.simplefilter("ignore")
        legacy = mc.get_machine()
    check(legacy == machine and set(legacy) == responding,
          "get-machine-differs", "deprecated get_machine() disagrees with "
          "build_machine(get_system_info())")
    # ------------------------------------------------- core reservations
    # which resource stands for cores is the caller's choice (by position or
    # by keyword in a third of the cases each)
    own = (w * 5 + h + len(responding)) % 3
    core_res = par.Cores if own == 0 else ("my", "cores")
    if own == 1:
        cons = pr_utils.build_core_constraints(si, core_res)
    elif own == 2:
        cons = pr_utils.build_core_constraints(si, core_resource=core_res)
    else:
        cons = pr_utils.build_core_constraints(si)
    if own:
        ctx.hit("own_core_resource")
    ctx.hit("core_constraints_checked")
    cover = {xy: [] for xy in responding}
    for k in cons:
        check((k.resource is par.Cores if own == 0 else
               k.resource == core_res) and isinstance(k.reservation, slice) and
              k.reservation.step in (None, 1) and
              k.reservation.start < k.reservation.stop,
              "constraint-shape", repr(vars(k)))
        targets = responding if k.location is None else [tuple(k.location)]
        for xy in targets:
            check(xy in cover, "constraint-on-unknown-chip", repr(xy))
            cover[xy].append((k.reservation.start, k.reservation.stop,
                              k.location is None))
    for xy, ivs in cover.items():
        busy = {p for p, s in enumerate(chips[xy]["states"]) if s != 15}
        got = []
        for a, b, glob in ivs:
            got.extend(range(a, b))
        check(len(got) == len(set(got)), "reservations-overlap",
              "chip %r: %r" % (xy, sorted(ivs)))
        check(set(got) == busy, "reservations-vs-busy-cores",
              "chip %r: reserved %r, cores not idle %r" %
              (xy, sorted(set(got)), sorted(busy)))
        check(all(b <= chips[xy]["ncores"] for a, b, g in ivs),
              "reservation-beyond-chip", "chip %r: %r" % (xy, ivs))
    tl = rt_utils.build_routing_table_target_lengths(si)
    check(tl == {xy: m.chips[xy].largest_free_rtr_block()
                 for xy in responding}, "table-target-lengths", "")
    # ------------------------------------------- per-core / per-chip probes
    for pb in case["probes"]:
        xy, p = tuple(pb["chip"]), pb["p"]
        c = m.chips[xy]
        rng = random.Random(pb["seed"])
        vals = {}
        for name, (ch, off, _, cnt) in M.structs()["vcpu"]["fields"].items():
            if ch.endswith("s"):
                v = pb["name"].encode()[:16]
                c.wr(c.vcpu_base + 128 * p + off, v.ljust(16, b"\0"),
                     log=False)
            elif name == "cpu_state":
                v = c.core_state[p]
            elif name == "rt_code":
                v = rng.randrange(21)
                c.poke(c.vcpu_base + 128 * p + off, ch, v)
            elif name == "__PAD":
                v = 0
            else:
                v = rng.getrandbits(8 * struct.calcsize("<" + ch))
                c.poke(c.vcpu_base + 128 * p + off, ch, v)
            vals[name] = v
        # iobuf chain
        addr = 0
        text = b""
        blocks = []
        for i, ln in enumerate(pb["iobuf"]):
            blocks.append((M.IOBUF_BASE + 0x100 * (i + 1) + 0x1000 * p, ln)
                          if len(pb["iobuf"]) <= 15 else
                          (M.IOBUF_BASE + 0x100000 + 0x20000 * p +
                           0x100 * (i + 1), ln))
        if len(blocks) > 100:
            ctx.hit("iobuf_chain_of_hundreds")
        datas = []
        for i, (a, ln) in enumerate(blocks):
            data = bytes(32 + (rng.getrandbits(8) % 90) for _ in range(ln))
            if ln and rng.random() < .3:
                # consoles print NULs too (terminated records), also last
                data = data[:-1] + b"\0"
                if ln > 3 and rng.random() < .5:
                    data = data[:ln // 2] + b"\0" + data[ln // 2 + 1:]
            datas.append(data)
        if datas and rng.random() < .4:
            # text outside ASCII; a character's bytes may straddle two
            # buffers of the chain (the console is a byte stream)
            whole = bytearray(b"".join(datas))
            for _ in range(rng.randint(1, 3)):
                ch = rng.choice(["\xe9", "\u03c0", "\u2192", "\u4e2d",
                                 "\U0001f600"]).encode("utf-8")
                cuts = [sum(len(d) for d in datas[:k])
                        for k in range(1, len(datas))]
                at = rng.choice(cuts) - 1 if cuts and rng.random() < .6 \
                    else rng.randrange(len(whole) + 1)
                if 0 <= at and at + len(ch) <= len(whole) and \
                        all(b < 0x80 for b in whole[at:at + len(ch)]):
                    whole[at:at + len(ch)] = ch
                    ctx.hit("iobuf_non_ascii")
            o = 0
            for k, d in enumerate(datas):
                datas[k] = bytes(whole[o:o + len(d)])
                o += len(d)
        for i, (a, ln) in enumerate(blocks):
            nxt = blocks[i + 1][0] if i + 1 < len(blocks) else 0
            data = datas[i]
            c.wr(a, struct.pack("<4I", nxt, 11, 22, ln) +
                 data.ljust(case["iobuf_size"], b"\xee"), log=False)
            text += data
        first = blocks[0][0] if blocks else 0
        c.poke(M.vcpu_field("iobuf", p, c.vcpu_base)[0], "I", first)
        vals["iobuf"] = first
        ps = mc.get_processor_status(p, xy[0], xy[1])
        ctx.hit("processor_status_checked")
        want = dict(
            registers=[vals["r%d" % i] for i in range(8)],
            program_state_register=vals["psr"], stack_pointer=vals["sp"],
            link_register=vals["lr"], rt_code=vals["rt_code"],
            phys_cpu=vals["phys_cpu"], cpu_state=vals["cpu_state"],
            mbox_ap_msg=vals["mbox_ap_msg"], mbox_mp_msg=vals["mbox_mp_msg"],
            mbox_ap_cmd=vals["mbox_ap_cmd"], mbox_mp_cmd=vals["mbox_mp_cmd"],
            sw_count=vals["sw_count"], sw_file=vals["sw_file"],
            sw_line=vals["sw_line"], time=vals["time"],
            app_name=vals["app_name"].decode().rstrip("\0"),
            iobuf_address=first, app_id=vals["app_id"],
            version=((vals["sw_ver"] >> 16) & 0xff,
                     (vals["sw_ver"] >> 8) & 0xff, vals["sw_ver"] & 0xff),
            user_vars=[vals["user%d" % i] for i in range(4)])
        for k, v in want.items():
            g = getattr(ps, k)
            if k in ("rt_code", "cpu_state"):
                # what the number MEANS is part of the description: the
                # names SARK gives the codes (sark.h), written out here
                names = RT_NAMES if k == "rt_code" else STATE_NAMES
                ctx.hit("code_name_compared")
                check(getattr(g, "name", None) == names[v],
                      "processor-status-" + k + "-name",
                      "chip %r core %d: code %d reported as %r, it means %r" %
                      (xy, p, v, getattr(g, "name", g), names[v]))
            g = int(g) if k in ("rt_code", "cpu_state") else g
            g = tuple(g) if k == "version" else g
            check(g == v, "processor-status-" + k,
                  "chip %r core %d: reported %r, memory holds %r" %
                  (xy, p, g, v))
        ctx.hit("iobuf_checked")
        got = mc.get_iobuf_bytes(p, xy[0], xy[1])
        check(got == text, "iobuf-bytes",
              "chip %r core %d: %d bytes returned, chain of %r blocks holds "
              "%d" % (xy, p, len(got), pb["iobuf"], len(text)))
        check(mc.get_iobuf(p, xy[0], xy[1]) == text.decode("utf-8"),
              "iobuf-text", "")
        if pb["seed"] % 3 == 0:
            # the same questions through the command-line front ends
            import io
            import contextlib
            ri = importlib.import_module("rig.scripts.rig_iobuf")
            out, err = io.StringIO(), io.StringIO()
            with contextlib.redirect_stdout(out), \
                    contextlib.redirect_stderr(err):
                rc = ri.main(["eth-root", str(xy[0]), str(xy[1]), str(p)])
            ctx.hit("front_end_iobuf")
            check(rc == 0 and out.getvalue() == text.decode("utf-8"),
                  "iobuf-text", "rig-iobuf %d %d %d exited %r and printed %d "
                  "characters, the console holds %d" %
                  (xy[0], xy[1], p, rc, len(out.getvalue()),
                   len(text.decode("utf-8"))))
            rps = importlib.import_module("rig.scripts.rig_ps")
            rows = list(rps.get_process_list(mc, xy[0], xy[1]))
            ctx.hit("front_end_process_list")
            want_rows = [(xy[0], xy[1], q, int(c.core_state[q]))
                         for q in range(c.ncores)]
            check([(a_, b_, q, int(st)) for a_, b_, q, st, _, _, _ in rows]
                  == want_rows, "process-list",
                  "chip %r: listed %r, the chip's cores are %r" %
                  (xy, [(q, int(st)) for _, _, q, st, _, _, _ in rows][:6],
                   [(q, s_) for _, _, q, s_ in want_rows][:6]))
            mine = [r_ for r_ in rows if r_[2] == p]
            check(mine and mine[0][4] == vals["rt_code"] and
                  mine[0][5] == vals["app_name"].decode().rstrip("\0") and
                  mine[0][6] == vals["app_id"], "process-list",
                  "core %d listed as %r" % (p, mine[:1]))
            st_name = STATE_NAMES[int(c.core_state[p])]
            only = list(rps.get_process_list(mc, xy[0], xy[1],
                                             states=["^%s$" % st_name]))
            check([r_[2] for r_ in only] ==
                  [q for q in range(c.ncores)
                   if int(c.core_state[q]) == int(c.core_state[p])],
                  "process-list-filter",
                  "cores in state %s: listed %r" %
                  (st_name, [r_[2] for r_ in only]))
        for i, v in enumerate(case["diag"]):
            c.poke(M.RTR_DIAG + 4 * i, "I", v)
        rd = mc.get_router_diagnostics(xy[0], xy[1])
        check(list(rd) == case["diag"], "router-diagnostics",
              "%r vs %r" % (list(rd)[:4], case["diag"][:4]))
        check(mc.get_num_working_cores(xy[0], xy[1]) == c.ncores,
              "num-working-cores", "")
        check({int(l) for l in mc.get_working_links(xy[0], xy[1])} == c.links,
              "working-links-probe", "")
        ip = mc.get_ip_address(xy[0], xy[1])
        check(ip == (si[xy].ip_address if c.eth_up else None),
              "ip-address-probe", repr(ip))
    patterns = {tuple(chips[xy]["states"]) for xy in responding}
    dead_links = any(len(chips[xy]["links"]) < 6 for xy in responding)
    # -------------------------------------------------- the machine changes
    # and is probed again through the same controller: the second description
    # has to be of the machine as it is now
    if responding:
        crng = random.Random(len(responding) * 31 + ew * 7 + eh)
        xy = sorted(responding)[crng.randrange(len(responding))]
        d, c = chips[xy], m.chips[xy]
        if d["links"]:
            gone = sorted(d["links"])[crng.randrange(len(d["links"]))]
            d["links"] = [l for l in d["links"] if l != gone]
            c.links = set(d["links"])
        p = crng.randrange(d["ncores"])
        d["states"] = list(d["states"])
        valid = sorted(int(a) for a in consts.AppState)
        d["states"][p] = [v for v in valid
                          if v != d["states"][p]][crng.randrange(
                              len(valid) - 1)]
        c.core_state = list(d["states"])
        m.sync_vcpu(c)
        d["sdram"] = max(0, d["sdram"] - 1 - crng.randrange(1000))
        c.sdram_free = d["sdram"]
        died = None
        if len(responding) > 2 and crng.random() < .5:
            died = sorted(responding - {xy, (0, 0)})[0]
            m.chips[died].silent = True
        try:
            si2 = mc.get_system_info()
        except Exception as e:
            raise Violation("unexpected-exception", "second get_system_info: "
                            "%s: %s" % (type(e).__name__, e))
        ctx.hit("reprobed_after_change")
        check(set(si2) == responding - {died}, "reprobe-responding-chips",
              "second probe lists %d chips, %d respond now" %
              (len(si2), len(responding - {died})))
        ci = si2[xy]
        got = ({int(l) for l in ci.working_links},
               [int(s_) for s_ in ci.core_states],
               ci.largest_free_sdram_block)
        want = (set(d["links"]), [int(s_) for s_ in d["states"]], d["sdram"])
        check(got == want, "reprobe-stale",
              "chip %r after the change: reported %r, machine has %r" %
              (xy, got, want))
        check(int(mc.get_processor_status(p, xy[0], xy[1]).cpu_state) ==
              d["states"][p], "reprobe-stale", "core state of %r core %d" %
              (xy, p))
        if died is not None:
            m.chips[died].silent = False
    if len(responding) >= 3 and len(patterns) >= 2 and (
            silent or ghosts or unlisted or dead_links or
            len(responding) < ew * eh):
        ctx.mark_nontrivial()
    ctx.note(dict(dims=(ew, eh), responding=len(responding),
                  silent=len(silent), unroutable=len(ghosts),
                  constraints=len(cons), datagrams=r.net.n_tx))
    return "ok"
