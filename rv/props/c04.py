"""C04 - table minimisation never changes where any matched key is routed.

Oracle: tables are generated over k <= 10 *active* bit positions scattered in
the 32-bit word (all other bits fixed or X in every entry), so every key the
table can distinguish is enumerated and looked up with first-match semantics
in the original and in the minimised table."""
import importlib

from ..core import check, Violation

ID = "C04"
IMPORTS = ['rig.routing_table.minimise', 'rig.routing_table.ordered_covering']
LEVEL = "exploration"
TECHNIQUE = ("runtime post-condition monitor: exhaustive first-match lookup of "
             "every distinguishable key in original vs minimised table")
LEVEL_TEXT = ("Generated orthogonal tables (random cube partitions, any "
              "order) and overlapping generality-ordered tables are minimised "
              "by each real minimiser with targets from 0 to beyond the table "
              "size; the oracle enumerates all 2^k keys over the table's active "
              "bits and compares first-match routing (route equality, source "
              "superset, default-routing rule), length and failure reports. "
              "Exhaustive per table, randomised over tables."
              ' Further classes: orthogonal tables whose merge products are merged again (remerge), one list object refilled and re-minimised, the front end with an empty method chain.')
LEVEL_NOTE = ("Trusted: the harness's first-match lookup and default-routing "
              "rule. Tables use <= 10 active key bits (<= 12 thorough) and no "
              "'!' bits (key bit set where mask bit clear).")
RULE = ("one case = one table (or chip->table map) with 3-5 minimiser calls; "
        "non-trivial = at least one call returned a strictly shorter table "
        "and the original matched at least 2 keys; distinct by case")
ASSUMPTIONS = [
    "input tables are orthogonal (any order) or sorted by increasing "
    "generality; default-route removal alone also gets arbitrary ordered "
    "tables; check_for_aliases=False only on orthogonal tables",
    "key bits are clear wherever mask bits are clear",
    "sources contain links and/or None",
]
FLOORS = {"empty_method_chain_failure": 30, "same_list_new_contents": 300, "no_raise_call": 150, "feedback_table_with_produced_entry": 100,
          "equivalence_keys": 20000, "shorter_result": 100,
          "failure_report": 30, "default_routed_key": 50,
          "merged_entry_match": 200}
SHARDS = {"quick": 16, "thorough": 64}
ANCHORS = [
    ("rig.routing_table.ordered_covering", "_refine_upcheck",
     {"upcheck_removal": "merge = _Merge(merge.routing_table, "
                         "merge.entries - {i})"}),
    ("rig.routing_table.remove_default_routes", "_is_defaultable",
     {"defaultable": "return True"}),
    ("rig.routing_table.ordered_covering", "_refine_merge",
     {"downcheck_rerun": ("merge = _refine_downcheck(merge, aliases, "
                          "min_goodness)", 1)}),
]
CLASSES = ["orth", "ordered", "arbitrary_rde", "tiny", "multi", "feedback",
           "big", "nested"]


def plan(tier):
    n = 1200 if tier == "quick" else 25000
    p = [(c, n) for c in CLASSES[:5]]
    p.append(("feedback", n // 2))
    p.append(("big", 40 if tier == "quick" else 1500))
    p.append(("nested", 40000 if tier == "quick" else 1200000))
    p.append(("remerge", 25000 if tier == "quick" else 600000))
    return p


def spread(v, pos):
    r = 0
    for i, p in enumerate(pos):
        if v >> i & 1:
            r |= 1 << p
    return r


def gen_cubes(rng, k, stop):
    out = []

    def rec(key, mask, free):
        if not free or rng.random() < stop:
            out.append((key, mask))
            return
        b = rng.choice(free)
        rest = [f for f in free if f != b]
        rec(key, mask | (1 << b), rest)
        rec(key | (1 << b), mask | (1 << b), rest)
    rec(0, 0, list(range(k)))
    return out


def gen_sources(rng, route):
    c = rng.random()
    if c < 0.3:
        return [None]
    if c < 0.6 and len(route) == 1 and route[0] < 6:
        return [(route[0] + 3) % 6]
    return sorted(rng.sample([None, 0, 1, 2, 3, 4, 5], rng.randint(1, 3)),
                  key=repr)


def gen_nested(rng):
    """Densely overlapping generality-ordered tables over few key bits: most
    entries are specific, a share of them are *generalisations of entries
    already in the table* (one or two of their bits turned into X) that
    mostly keep the route of the entry they were derived from but come from
    other directions - what the tables of chips where branches of one net
    (or of nets sharing a key prefix) meet look like.  Few routes, so that
    candidate merges are large and meet foreign entries on their way down."""
    k = rng.randint(3, 6)
    pos = sorted(rng.sample(range(32), k))
    active = spread((1 << k) - 1, pos)
    fixed_mask = (rng.getrandbits(32) & ~active) if rng.random() < .5 else 0
    fixed_key = rng.getrandbits(32) & fixed_mask
    pool = [sorted(rng.sample(range(24), rng.randint(1, 2)))
            for _ in range(rng.randint(2, 3))]
    if rng.random() < .3:
        pool.append([rng.randrange(6)])
    weights = [rng.choice([1, 1, 3]) for _ in pool]
    care = rng.choice([.6, .75, .9])
    if rng.random() < .5:
        # one route dominates and most entries are fully specified
        weights = [5] + [1] * (len(pool) - 1)
        care = rng.choice([.9, 1.0])
    raw = []
    for _ in range(rng.randint(4, 14)):
        if raw and rng.random() < .35:
            r, key, mask = rng.choice(raw)[:3]
            for _ in range(rng.randint(1, 2)):
                b = 1 << rng.randrange(k)
                key &= ~b
                mask &= ~b
            if rng.random() < .25:
                r = rng.choices(pool, weights)[0]
        else:
            mask = 0
            for b in range(k):
                if rng.random() < care:
                    mask |= 1 << b
            key = rng.getrandbits(k) & mask
            r = rng.choices(pool, weights)[0]
        raw.append((r, key, mask, gen_sources(rng, r)))
    seen = set()
    entries = []
    for r, key, mask, src in raw:
        if (key, mask) in seen:
            continue
        seen.add((key, mask))
        entries.append((r, spread(key, pos) | fixed_key,
                        spread(mask, pos) | fixed_mask, src))
    rng.shuffle(entries)
    entries.sort(key=lambda e: bin(~e[1] & ~e[2] & 0xffffffff).count("1"))
    return dict(pos=pos, fixed_key=fixed_key, entries=entries, mode="ordered")


def gen_remerge(rng):
    """Orthogonal tables of a dozen to forty mostly fully specified entries
    over 4-7 key bits sharing two to four routes: every route has enough
    entries for several rounds of merging, so that the product of one merge
    is merged again later and has to travel past the products of others."""
    k = rng.randint(4, 7)
    pos = sorted(rng.sample(range(32), k))
    n = rng.randint(12, min(40, (1 << k) - 2))
    pool = [[6 + i] for i in range(rng.randint(2, 4))]
    keys = rng.sample(range(1 << k), n)
    full = (1 << k) - 1
    entries = []
    taken = set(keys)
    for key in keys:
        mask = full
        if rng.random() < .12:
            b = 1 << rng.randrange(k)
            if (key ^ b) not in taken:
                taken.add(key ^ b)
                key &= ~b
                mask &= ~b
        r = rng.choice(pool)
        src = [None] if rng.random() < .8 else gen_sources(rng, r)
        entries.append((r, spread(key, pos), spread(mask, pos) |
                        (0xffffffff & ~spread(full, pos)), src))
    return dict(pos=pos, fixed_key=0, entries=entries, mode="orth")


def gen_table(rng, cls, tier):
    if cls == "nested":
        return gen_nested(rng)
    if cls == "remerge":
        return gen_remerge(rng)
    if cls == "tiny":
        k = rng.randint(0, 2)
    elif cls == "big":
        k = rng.randint(8, 10 if tier == "quick" else 12)
    else:
        k = rng.randint(1, 7 if tier == "quick" else 9)
    pos = sorted(rng.sample(range(32), k))
    active = spread((1 << k) - 1, pos)
    fixed_mask = (rng.getrandbits(32) & ~active) if rng.random() < .6 else 0
    fixed_key = rng.getrandbits(32) & fixed_mask
    pool = [sorted(rng.sample(range(24), rng.randint(1, 3)))
            for _ in range(rng.randint(1, 4))] + [[rng.randrange(6)]]
    if rng.random() < 0.2:
        pool = [[rng.randrange(6)] for _ in range(3)]
    cubes = gen_cubes(rng, k, 0.25 if cls != "big" else 0.08)
    rng.shuffle(cubes)
    keep = rng.choice([1.0, .85, .6])
    cubes = [c for c in cubes if rng.random() < keep]
    if cls == "tiny" and rng.random() < .4:
        cubes = []
    entries = []
    for key, mask in cubes:
        r = rng.choice(pool)
        entries.append((r, spread(key, pos) | fixed_key,
                        spread(mask, pos) | fixed_mask, gen_sources(rng, r)))
    mode = "orth"
    if cls in ("ordered", "arbitrary_rde") or (cls in ("multi", "big", "tiny")
                                               and rng.random() < .4):
        mode = "ordered"
        for _ in range(rng.randint(1, 5)):
            m = rng.getrandbits(k) if k else 0
            kk = (rng.getrandbits(k) & m) if k else 0
            r = rng.choice(pool)
            entries.append((r, spread(kk, pos) | fixed_key,
                            spread(m, pos) | fixed_mask, gen_sources(rng, r)))
        if cls == "arbitrary_rde":
            mode = "arbitrary"
            rng.shuffle(entries)
        else:
            entries.sort(key=lambda e: bin(~e[1] & ~e[2] &
                                           0xffffffff).count("1"))
    return dict(pos=pos, fixed_key=fixed_key, entries=entries, mode=mode)


def targets(rng, n):
    return rng.choice([None, None, 0, 1, 2, n // 2, max(0, n - 1), n, n + 3,
                       rng.randint(0, n + 1)])


def gen(cls, idx, rng, tier):
    t = gen_table(rng, cls, tier)
    n = len(t["entries"])
    if t["mode"] == "arbitrary":
        fns = ["rde"] * 3
    else:
        fns = ["oc", "rde", "mt", "oc", "mt",
               rng.choice(["occ", "occ_noraise", "mt_empty"])]
        if t["mode"] == "orth":
            fns.append("rde_noalias")
    t["calls"] = [(f, targets(rng, n)) for f in fns]
    if cls == "remerge":
        t["calls"] = [(rng.choice(["oc", "occ", "mt"]), None)]
    if cls == "nested":
        t["calls"] = [(rng.choice(["oc", "occ", "mt"]), None)]
        if rng.random() < .3:
            t["calls"].append((rng.choice(["oc", "mt", "occ_noraise"]),
                               targets(rng, n)))
    if cls == "feedback":
        # a second table over the same keys whose entries include key/mask
        # pairs that minimising the first one *produced* (tables of chips
        # along one route look like this), minimised afterwards in the same
        # process and together with the first by the multi-chip front end
        t["feedback"] = dict(seed=rng.randrange(1 << 30),
                             keep=rng.choice([0.0, 0.3, 0.7]),
                             target=targets(rng, max(1, n // 2)),
                             methods=rng.choice([None, None, ["oc"],
                                                 ["rde", "oc"]]))
        t["calls"] = [("oc", None)]
    if cls == "multi":
        others = [gen_table(rng, rng.choice(["orth", "ordered", "tiny"]), tier)
                  for _ in range(rng.randint(1, 3))]
        t["others"] = [dict(chip=(i, rng.randrange(4)), **o)
                       for i, o in enumerate(others)]
        kind = rng.choice(["int", "dict", "none", "defaultdict"])
        if kind == "int":
            tl = targets(rng, n)
        elif kind == "none":
            tl = None
        elif kind == "defaultdict":
            # a dict (subclass) that lists only some chips and answers for
            # the others through its default factory
            tl = {"default": targets(rng, n)}
            for o in t["others"]:
                if rng.random() < .5:
                    tl[o["chip"]] = targets(rng, len(o["entries"]))
        else:
            tl = {(9, 9): targets(rng, n)}
            for o in t["others"]:
                tl[o["chip"]] = targets(rng, len(o["entries"]))
        t["calls"] = [("mts", tl)]
        t["methods"] = rng.choice([None, None, ["rde"], ["oc"], ["oc", "rde"],
                                   ["rde", "oc"]])
    return t


# ---------------------------------------------------------------- oracle
def lookup(table, key):
    for i, e in enumerate(table):
        if key & e.mask == e.key:
            return e
    return None


def default_routable(e, Routes):
    if len(e.route) != 1 or len(e.sources) != 1 or None in e.sources:
        return False
    r, s = next(iter(e.route)), next(iter(e.sources))
    return r < 6 and s < 6 and (int(s) + 3) % 6 == int(r)


def build(t, RTE, Routes):
    return [RTE({Routes(r) for r in route}, key, mask,
                {None if s is None else Routes(s) for s in srcs})
            for route, key, mask, srcs in t["entries"]]


def all_keys(t, salt):
    pos = t["pos"]
    fk = t["fixed_key"]
    # bits that are X in every entry are irrelevant: fill them pseudo-randomly
    allmask = 0
    for _, key, mask, _ in t["entries"]:
        allmask |= mask
    free = ~(allmask | spread((1 << len(pos)) - 1, pos)) & 0xffffffff
    for v in range(1 << len(pos)):
        noise = (salt * 2654435761 + v * 40503) & free
        yield spread(v, pos) | fk | noise


def equivalent(ctx, t, old, new, Routes, what, merging_only=False):
    matched = 0
    orig_km = {(e.key, e.mask) for e in old}
    for key in all_keys(t, len(old)):
        o = lookup(old, key)
        if o is None:
            continue
        matched += 1
        n = lookup(new, key)
        ctx.hit("equivalence_keys")
        if n is None:
            ctx.hit("default_routed_key")
            # (the merging step alone removes nothing)
            check(default_routable(o, Routes) and not merging_only,
                  "matched-key-dropped",
                  "%s: key %#010x matched %s in the original, matches nothing "
                  "in the result and is not default-routable" %
                  (what, key, o), call=what)
        else:
            if (n.key, n.mask) not in orig_km:
                ctx.hit("merged_entry_match")
            check(n.route == o.route, "route-changed",
                  "%s: key %#010x was routed by %s, now by %s" %
                  (what, key, o, n), call=what)
            check(o.sources <= n.sources, "sources-lost",
                  "%s: key %#010x: original sources %r not within %r" %
                  (what, key, sorted(o.sources, key=repr),
                   sorted(n.sources, key=repr)), call=what)
    return matched


def call_min(mods, fn, table, target):
    oc, rde, mm = mods
    if fn == "oc":
        return oc.minimise(table, target)
    if fn == "rde":
        return rde.minimise(table, target)
    if fn == "rde_noalias":
        return rde.minimise(table, target, check_for_aliases=False)
    if fn == "mt":
        return mm.minimise_table(table, target)
    if fn == "mt_empty":
        # the front end told to try no method at all: the table as it is
        # either fits or the failure reports its size
        return mm.minimise_table(table, target, methods=())
    if fn == "occ":
        # the merging step on its own (no default-route removal after it)
        return oc.ordered_covering(table, target)[0]
    if fn == "occ_noraise":
        return oc.ordered_covering(table, target, no_raise=True)[0]
    raise AssertionError(fn)


def judge_call(ctx, mods, t, fn, old, target, Routes, MFE, what, arg=None):
    """Run one minimiser on one table and judge the outcome. -> shorter?
    `arg`: the caller's own long-lived list object, refilled with the table
    for this call."""
    if arg is not None:
        arg[:] = old
    try:
        new = call_min(mods, fn, list(old) if arg is None else arg, target)
    except MFE as e:
        ctx.hit("failure_report")
        check(target is not None, "failed-without-target",
              "%s raised MinimisationFailedError with target None" % what)
        check(e.target_length == target, "failure-target",
              "%s: reports target %r, given %r" % (what, e.target_length,
                                                  target))
        fl = e.final_length
        check(isinstance(fl, int) and fl > target, "failure-but-target-met",
              "%s: failed reporting final_length=%r for target %r" %
              (what, fl, target))
        if fn == "mt_empty":
            ctx.hit("empty_method_chain_failure")
            best = len(old)
        else:
            alone = [fn] if fn != "mt" else ["rde", "oc"]
            best = min(len(call_min(mods, f, list(old), None))
                       for f in alone)
        if fn == "mt":
            best = min(best, len(old))
        check(fl == best, "failure-best-size",
              "%s: reports best size %r but minimising without a target "
              "reaches %r" % (what, fl, best))
        return False
    except Violation:
        raise
    except Exception as e:
        raise Violation("unexpected-exception", "%s: %s: %s" %
                        (what, type(e).__name__, e), call=what)
    new = list(new)
    check(len(new) <= len(old), "result-longer", "%s: %d -> %d entries" %
          (what, len(old), len(new)))
    if target is not None and fn != "occ_noraise":
        check(len(new) <= target, "target-missed",
              "%s returned %d entries for target %d" % (what, len(new),
                                                        target))
    if fn == "occ_noraise":
        ctx.hit("no_raise_call")
    for e in new:
        check(all(isinstance(r, Routes) for r in e.route) and
              0 <= e.key <= 0xffffffff and 0 <= e.mask <= 0xffffffff and
              e.key & ~e.mask == 0, "malformed-entry", "%s: %r" % (what, e))
    matched = equivalent(ctx, t, old, new, Routes, what,
                         merging_only=fn.startswith("occ"))
    if len(t["pos"]) <= 8 and t["mode"] == "orth":
        # cross-examination of this oracle, never a verdict: the library's
        # own equivalence helper has to agree on tables it is defined for
        ru = importlib.import_module("rig.routing_table.utils")
        try:
            agrees = ru.table_is_subset_of(list(old), list(new))
        except Exception as e:          # helper's own trouble, not C04's
            agrees = "raised %s" % type(e).__name__
        ctx.hit("library_helper_consulted")
        if agrees is not True:
            ctx.hit("library_helper_disagrees")
            ctx.note({"helper_disagreement": "%s: %r" % (what, agrees)})
    if len(new) < len(old):
        ctx.hit("shorter_result")
        return matched >= 2
    return False


def run(case, ctx):
    rt = importlib.import_module("rig.routing_table")
    mods = (importlib.import_module("rig.routing_table.ordered_covering"),
            importlib.import_module("rig.routing_table.remove_default_routes"),
            importlib.import_module("rig.routing_table.minimise"))
    RTE, Routes, MFE = (rt.RoutingTableEntry, rt.Routes,
                        rt.MinimisationFailedError)
    old = build(case, RTE, Routes)
    nt = False
    obs = []
    # one list object of the application's, refilled for every call (a
    # third of the cases), and at the end the same table with the routes of
    # its entries exchanged - same length, same keys - through the same
    # object and the same minimiser
    kept = [] if (len(old) + len(case["pos"])) % 3 == 0 else None
    for ci, (fn, target) in enumerate(case["calls"]):
        if fn != "mts":
            what = "%s(target=%r) on %d-entry %s table" % (
                fn, target, len(old), case["mode"])
            s = judge_call(ctx, mods, case, fn, old, target, Routes, MFE, what,
                           arg=kept)
            nt = nt or s
            obs.append(what)
            if kept is not None and len(old) >= 2 and \
                    ci == len(case["calls"]) - 1:
                k = 1 + len(case["pos"]) % (len(old) - 1)
                old2 = [RTE(set(b.route), a.key, a.mask, set(b.sources))
                        for a, b in zip(old, old[k:] + old[:k])]
                ctx.hit("same_list_new_contents")
                judge_call(ctx, mods, case, fn, old2, target, Routes, MFE,
                           what + " (the same list object, routes of the "
                           "entries exchanged since the last call)", arg=kept)
            continue
        tables = {(9, 9): old}
        descr = {(9, 9): case}
        for o in case["others"]:
            tables[o["chip"]] = build(o, RTE, Routes)
            descr[o["chip"]] = o
        arg = {c: list(tb) for c, tb in tables.items()}
        tl = dict(target) if isinstance(target, dict) else target
        if isinstance(tl, dict) and "default" in tl:
            import collections
            dflt = tl.pop("default")
            listed = dict(tl)
            tl = collections.defaultdict(lambda: dflt, listed)
            ctx.hit("targets_from_default_factory")

            def tgt(chip):
                return listed.get(chip, dflt)
        else:
            def tgt(chip):
                return tl[chip] if isinstance(tl, dict) else tl
        what = "minimise_tables(targets=%r) on %d chips" % (target,
                                                            len(tables))
        mnames = case.get("methods")
        mkw = {} if not mnames else dict(methods=tuple(
            {"rde": mods[1].minimise, "oc": mods[0].minimise}[n_]
            for n_ in mnames))
        what += " methods=%r" % (mnames,)
        try:
            res = mods[2].minimise_tables(arg, tl, **mkw)
        except MFE as e:
            ctx.hit("failure_report")
            chip = getattr(e, "chip", None)
            check(chip in tables, "failure-chip", "%s: exc.chip=%r" %
                  (what, chip))
            # that chip's table must really be unable to reach its target
            try:
                mods[2].minimise_table(list(tables[chip]), tgt(chip), **mkw)
            except MFE as e2:
                check(e.final_length == e2.final_length and
                      e.target_length == tgt(chip), "failure-report-multi",
                      "%s: reports %r/%r, single-table call reports %r/%r" %
                      (what, e.target_length, e.final_length,
                       e2.target_length, e2.final_length))
                if not mnames:
                    judge_call(ctx, mods, descr[chip], "mt", tables[chip],
                               tgt(chip), Routes, MFE,
                               what + " [failed chip]")
                continue
            check(False, "failure-but-single-succeeds",
                  "%s failed for chip %r whose table minimises alone" %
                  (what, chip))
        except Exception as e:
            raise Violation("unexpected-exception", "%s: %s: %s" %
                            (what, type(e).__name__, e))
        check(set(res) <= set(tables), "extra-chip", "%s: %r" %
              (what, sorted(set(res) - set(tables))))
        for chip, tb in tables.items():
            new = list(res.get(chip, []))
            w = what + " chip %r" % (chip,)
            check(len(new) <= len(tb), "result-longer", w)
            if tgt(chip) is not None:
                check(len(new) <= tgt(chip), "target-missed",
                      "%s: %d entries for target %r" % (w, len(new),
                                                        tgt(chip)))
            m = equivalent(ctx, descr[chip], tb, new, Routes, w)
            if len(new) < len(tb):
                ctx.hit("shorter_result")
                nt = nt or m >= 2
        obs.append(what)
    if case.get("feedback"):
        nt = run_feedback(ctx, mods, case, old, RTE, Routes, MFE) or nt
    if nt:
        ctx.mark_nontrivial()
    ctx.note(obs)
    return "ok"


def run_feedback(ctx, mods, case, old, RTE, Routes, MFE):
    import random
    fb = case["feedback"]
    rng = random.Random(fb["seed"])
    out = list(mods[0].minimise(list(old), None))
    produced = {(e.key, e.mask) for e in out} - {(e.key, e.mask)
                                                 for e in old}
    kms = set(produced) | {(e.key, e.mask) for e in old
                           if rng.random() < fb["keep"]}
    if not kms:
        return False
    pool = [sorted(rng.sample(range(24), rng.randint(1, 3)))
            for _ in range(3)] + [[rng.randrange(6)]]
    entries = []
    for key, mask in sorted(kms):
        r = rng.choice(pool)
        entries.append((r, key, mask, gen_sources(rng, r)))
    entries.sort(key=lambda e: bin(~e[1] & ~e[2] & 0xffffffff).count("1"))
    second = dict(pos=case["pos"], fixed_key=case["fixed_key"],
                  entries=entries, mode="ordered")
    tb = build(second, RTE, Routes)
    ctx.hit("feedback_table")
    if produced:
        ctx.hit("feedback_table_with_produced_entry")
    nt = False
    for fn, target in (("oc", None), ("mt", fb["target"]), ("rde", None),
                       ("oc", fb["target"])):
        what = "%s(target=%r) on a %d-entry table built from the key/masks " \
               "an earlier minimisation produced" % (fn, target, len(tb))
        nt = judge_call(ctx, mods, second, fn, tb, target, Routes, MFE,
                        what) or nt
    # both through the multi-chip front end, first table first
    tables = {(0, 0): list(old), (1, 0): list(tb)}
    descr = {(0, 0): case, (1, 0): second}
    mnames = fb["methods"]
    mkw = {} if not mnames else dict(methods=tuple(
        {"rde": mods[1].minimise, "oc": mods[0].minimise}[n_]
        for n_ in mnames))
    what = "minimise_tables(None, methods=%r) on two chips sharing keys" % (
        mnames,)
    try:
        res = mods[2].minimise_tables({c: list(t) for c, t in tables.items()},
                                      None, **mkw)
    except Exception as e:
        raise Violation("unexpected-exception", "%s: %s: %s" %
                        (what, type(e).__name__, e))
    for chip, t0 in tables.items():
        new = list(res.get(chip, []))
        check(len(new) <= len(t0), "result-longer", what)
        equivalent(ctx, descr[chip], t0, new, Routes,
                   what + " chip %r" % (chip,))
    return nt
