"""C10 - routing entries installed in a chip's router are the entries given.

Part A: routing_tree_to_tables on generated forests against an independent
per-chip recomputation of (in-directions, out-directions) and of "must raise
MultisourceRouteError".
Part B: the controller against the simulated router (allocator with holes,
staging buffer, load command, router copy read-back)."""
import importlib
import struct

from ..core import check, Violation
from ..sim import machine as M
from ..gen import par

ID = "C10"
IMPORTS = ['rig.machine_control.machine_controller', 'rig.routing_table.utils']
LEVEL = "exploration"
TECHNIQUE = ("post-condition monitor (independent in/out direction "
             "recomputation) + reference-model monitor comparing the "
             "simulated router's state after every load / read-back")
LEVEL_TEXT = ("Generated forests (chains, branching, leaves without route, "
              "link endpoints, several trees sharing key and mask with equal "
              "or different forks) are converted by the real function and "
              "compared entry by entry with an independent recomputation; "
              "generated tables (0-1024 entries, every route bit, random "
              "key/mask) are loaded by the real controller into simulated "
              "routers whose free lists have holes and whose allocators may "
              "refuse, and the router contents, the commands issued and the "
              "read-back are compared with the request.")
LEVEL_NOTE = ("Trusted: the harness's tree walker, and the machine model's "
              "router allocator / load / copy semantics.")
RULE = ("one case = one forest, or one machine with 1-4 table loads; "
        "non-trivial = (A) two trees share a key/mask on some chip, or a "
        "chip has >= 2 in-directions; (B) a block of >= 2 entries was "
        "installed above an occupied hole; distinct by case")
ASSUMPTIONS = [
    "trees are valid (no chip twice within one tree)",
    "loading an empty table may either raise the router error or install "
    "nothing",
    "entry order within a generated table is not constrained",
]
FLOORS = {"forest_checked": 300, "multisource_expected": 40,
          "shared_keymask_merge": 60, "router_load_checked": 250,
          "router_refusal": 30, "readback_checked": 100,
          "same_list_object_again": 60}
SHARDS = {"quick": 16, "thorough": 64}
CLASSES = ["forest", "shared", "conflict", "load", "holes", "refuse", "multi",
           "full"]


def plan(tier):
    n = 600 if tier == "quick" else 30000
    return [(c, n if c != "full" else n // 20) for c in CLASSES]


# ------------------------------------------------------------ part A: gen
def grow_tree(rng, w, h, root, size, avoid=()):
    """-> nested (chip, [(route, child)]) with child a subtree or ("L", v)"""
    nodes = {root: []}
    order = [root]
    for _ in range(size):
        p = rng.choice(order)
        l = rng.randrange(6)
        c = par.neighbour(w, h, p[0], p[1], l)
        if c in nodes or c in avoid or \
                any(r == l for r, _ in nodes[p]):
            continue
        nodes[c] = []
        nodes[p].append((l, c))
        order.append(c)
    # leaves
    vid = [0]
    for chip in order:
        for _ in range(rng.choice([0, 0, 1, 1, 2])):
            vid[0] += 1
            k = rng.random()
            used = {r for r, _ in nodes[chip]}
            if k < .6:
                r = 6 + rng.randrange(18)
            elif k < .8:
                r = None
            else:
                free = [l for l in range(6) if l not in used]
                if not free:
                    continue
                r = rng.choice(free)
            nodes[chip].append((r, ("L", "v%d" % vid[0])))

    def build(chip):
        return (chip, [(r, build(c) if c in nodes and not
                        (isinstance(c, tuple) and c and c[0] == "L")
                        else c) for r, c in nodes[chip]])
    return build(root), nodes


def gen(cls, idx, rng, tier):
    if cls in ("forest", "shared", "conflict"):
        w, h = rng.randint(2, 8), rng.randint(2, 8)
        trees = []
        n = rng.randint(1, 5)
        keys = [(rng.getrandbits(32), 0xffffffff) for _ in range(n)]
        for i in range(n):
            root = (rng.randrange(w), rng.randrange(h))
            t, nodes = grow_tree(rng, w, h, root, rng.randint(0, 14))
            km = keys[i]
            trees.append(("n%d" % i, km[0], km[1], t))
            if cls in ("shared", "conflict") and len(nodes) > 1:
                # a second tree with the same key/mask merging into tree i
                chips = [c for c in nodes if c != root]
                target = rng.choice(chips)
                l = rng.randrange(6)
                r2 = par.neighbour(w, h, target[0], target[1], (l + 3) % 6)
                if r2 in nodes:
                    continue

                def sub(t_):
                    if t_[0] == target:
                        return t_
                    for r, c in t_[1]:
                        if c[0] != "L":
                            s = sub(c)
                            if s:
                                return s
                    return None
                s = sub(t)
                if cls == "conflict" and rng.random() < .6:
                    # fork differently at the shared chip
                    kids = list(s[1])
                    k3 = rng.random()
                    if kids and k3 < .35:
                        kids.pop(rng.randrange(len(kids)))
                    elif kids and k3 < .7:
                        # same number of directions, one of them different
                        j = rng.randrange(len(kids))
                        used = {r_ for r_, _ in kids}
                        alt = [r_ for r_ in range(6, 24) if r_ not in used]
                        kids[j] = (rng.choice(alt), ("L", "swapped"))
                    else:
                        kids.append((6 + rng.randrange(18), ("L", "extra")))
                    s = (s[0], kids)
                if rng.random() < .4:
                    # the second tree is *rooted* on a chip the first passes
                    # through (a locally injected packet joins the route)
                    trees.append(("m%d" % i, km[0], km[1], s))
                else:
                    trees.append(("m%d" % i, km[0], km[1], (r2, [(l, s)])))
        rng.shuffle(trees)
        return dict(kind="forest", w=w, h=h, trees=trees)
    # ---- part B
    tables = []
    nload = rng.randint(2, 4) if cls == "multi" else 1
    for _ in range(nload):
        n = rng.choice([0, 1, 2, 3, 17, 100, rng.randint(0, 60)])
        if cls == "refuse":
            n = rng.choice([1, 5, 900, 1023, 1024])
        if cls == "full":
            # a completely free router: the largest table that fits, its
            # neighbours, and one too many
            n = rng.choice([1022, 1023, 1023, 1024, 1000])
        ents = []
        for _ in range(n):
            route = sorted(rng.sample(range(24), rng.randint(0, 6)))
            if rng.random() < .05:
                route = list(range(24))
            ents.append((route, rng.getrandbits(32), rng.getrandbits(32)))
        tables.append(dict(chip=(rng.randrange(2), rng.randrange(2)),
                           app=rng.choice([30, 66, 255, 1]), entries=ents))
    holes = []
    if cls in ("holes", "refuse", "multi"):
        pos = 1
        for _ in range(rng.randint(1, 8)):
            pos += rng.randint(0, 60)
            ln = rng.randint(1, 150)
            if pos + ln > 1024:
                break
            holes.append((pos, ln, rng.choice([1, 2, 30])))
            pos += ln
    if cls == "full" and rng.random() < .4:
        # everything but the last k entries of the router is taken: a table
        # of k entries fits exactly at the very end (block base 1024 - k)
        k = rng.choice([1, 1, 2, 3, 7])
        holes = [(1, 1023 - k, rng.choice([1, 2, 30]))]
        for t in tables[:1]:
            t["entries"] = t["entries"][:k + rng.choice([0, 0, 0, 1])]
        tables = tables[:1]
    same_list = cls == "multi" and rng.random() < .6
    if same_list and rng.random() < .7:
        # the caller keeps one list object for its table and edits it in
        # place between loads: entries replaced / reordered, same length
        n = max(1, len(tables[0]["entries"]))
        for t in tables:
            while len(t["entries"]) < n:
                t["entries"].append(([rng.randrange(24)],
                                     rng.getrandbits(32), rng.getrandbits(32)))
            del t["entries"][n:]
        if rng.random() < .5:
            for t in tables[1:]:
                t["entries"] = list(tables[0]["entries"])
                rng.shuffle(t["entries"])
    return dict(kind="load", tables=tables, holes=holes, same_list=same_list,
                rtr_fail=cls == "refuse" and rng.random() < .4,
                buf=rng.choice([64, 256, 255]),
                via_map=cls in ("multi", "full") and rng.random() < .5)


# --------------------------------------------------------- part A: oracle
def walk(tree):
    """yield (arrival link or None, chip, out-direction set)"""
    stack = [(None, tree)]
    while stack:
        arr, (chip, kids) = stack.pop()
        outs = set()
        for r, c in kids:
            if r is not None:
                outs.add(r)
            if c[0] != "L":
                stack.append((r, c))
        yield arr, tuple(chip), outs


_SUBCLASS = {}


def build_tree(t, RoutingTree, Routes, mixed=0):
    """mixed: 0 = plain RoutingTree nodes; otherwise some nodes (chosen by
    the chip's coordinates) are instances of an application's own subclass
    of RoutingTree (annotated hops grafted onto the router's trees) - every
    node is a RoutingTree all the same"""
    chip, kids = t
    cls = RoutingTree
    if mixed and (chip[0] * 7 + chip[1] * 3 + mixed) % 3 == 0:
        cls = _SUBCLASS.get(RoutingTree)
        if cls is None:
            cls = _SUBCLASS[RoutingTree] = type(
                "AnnotatedHop", (RoutingTree,), {"note": "user subclass"})
    node = cls(tuple(chip))
    for r, c in kids:
        rr = None if r is None else Routes(r)
        if c[0] == "L":
            node.children.append((rr, c[1]))
        else:
            node.children.append((rr, build_tree(c, RoutingTree, Routes,
                                                 mixed)))
    return node


def run_forest(case, ctx):
    rt = importlib.import_module("rig.routing_table")
    rtu = importlib.import_module("rig.routing_table.utils")
    tree_mod = importlib.import_module("rig.place_and_route.routing_tree")
    from rig.netlist import Net
    Routes = rt.Routes
    routes, net_keys = {}, {}
    import collections
    routes = collections.OrderedDict()
    for name, key, mask, t in case["trees"]:
        net = Net(name, [name])
        mixed = (key + len(case["trees"])) % 3     # 0: plain nodes only
        if mixed:
            ctx.hit("tree_with_subclass_nodes")
        routes[net] = build_tree(t, tree_mod.RoutingTree, Routes, mixed)
        net_keys[net] = (key, mask)
    # expectation
    want = {}
    conflicts = set()
    shared = multi_in = False
    for name, key, mask, t in case["trees"]:
        for arr, chip, outs in walk(t):
            ins = None if arr is None else (arr + 3) % 6
            slot = want.setdefault(chip, {})
            if (key, mask) in slot:
                shared = True
                if slot[(key, mask)][1] != outs:
                    conflicts.add((key, mask, chip))
                slot[(key, mask)][0].add(ins)
            else:
                slot[(key, mask)] = [{ins}, set(outs)]
    try:
        tables = rtu.routing_tree_to_tables(routes, net_keys)
    except rt.MultisourceRouteError as e:
        ctx.hit("multisource_expected")
        check(conflicts, "multisource-error-without-conflict",
              "raised %s but no two trees with the same key/mask fork "
              "differently" % e)
        check((e.key, e.mask, (e.x, e.y)) in conflicts,
              "multisource-error-names-wrong-place",
              "%#x/%#x at %r; conflicts: %r" % (e.key, e.mask, (e.x, e.y),
                                                sorted(conflicts)[:3]))
        return shared
    except Exception as e:
        raise Violation("unexpected-exception", "%s: %s" %
                        (type(e).__name__, e))
    ctx.hit("forest_checked")
    check(not conflicts, "multisource-not-reported",
          "trees with the same key/mask fork differently at %r but no error "
          "was raised" % (sorted(conflicts)[:3],))
    got_chips = {tuple(c) for c, tb in tables.items() if tb}
    check(got_chips == set(want), "chips-with-tables",
          "tables for %r, trees visit %r" % (sorted(got_chips)[:8],
                                             sorted(want)[:8]))
    for chip, slot in want.items():
        tb = tables[chip]
        kms = [(e.key, e.mask) for e in tb]
        check(len(kms) == len(set(kms)) and set(kms) == set(slot),
              "entries-per-keymask", "chip %r has entries %r, expected %r" %
              (chip, kms, sorted(slot)))
        for e in tb:
            ins, outs = slot[(e.key, e.mask)]
            check({int(r) for r in e.route} == outs, "entry-route",
                  "chip %r key %#x: route %r, trees leave by %r" %
                  (chip, e.key, sorted(int(r) for r in e.route),
                   sorted(outs)))
            got_ins = {None if s is None else int(s) for s in e.sources}
            check(got_ins == ins, "entry-sources",
                  "chip %r key %#x: sources %r, trees enter from %r" %
                  (chip, e.key, sorted(got_ins, key=repr),
                   sorted(ins, key=repr)))
            if len(ins) >= 2:
                multi_in = True
                ctx.hit("shared_keymask_merge")
    return shared or multi_in


# --------------------------------------------------------- part B: oracle
def run_load(case, ctx):
    rt = importlib.import_module("rig.routing_table")
    m = M.Machine(2, 2, buffer_size=case["buf"])
    for c in m.chips.values():
        for pos, ln, app in case["holes"]:
            for i in range(pos, pos + ln):
                c.router[i] = (1 << (i % 24), i, 0xffffffff, app, 0)
        c.rtr_fail = case["rtr_fail"]
    if case["buf"] % 8 == 0 or len(case["holes"]) % 2:
        m.diversify(len(case["holes"]))     # chips disagree on sv pointers
    else:
        m.finalise()
    r = M.Rig(m)
    if (case["buf"] + len(case["holes"])) % 3 == 0:
        # the machine does not answer when the controller first talks to it
        # (not up yet); the application catches the error and carries on
        r.net.plan = lambda net, sock, data, n: [("lost",)]
        try:
            r.mc.read(0x60000000, 4, 0, 0, 0)
            raise Violation("oracle", "silent machine answered")
        except r.sc.SCPError:
            ctx.hit("first_contact_failed")
        r.net.plan = None
        del m.protocol_errors[:]
    mc = r.mc
    nt = False

    def routebits(route):
        v = 0
        for b in route:
            v |= 1 << b
        return v
    loads = []
    for t in case["tables"]:
        loads.append((tuple(t["chip"]), t["app"],
                      [rt.RoutingTableEntry({rt.Routes(b) for b in route},
                                            key, mask)
                       for route, key, mask in t["entries"]], t["entries"]))
    calls = [[l] for l in loads]
    if case["via_map"]:
        # one call for several chips (one table per chip, same app id)
        seen = {}
        for chip, app, ents, raw in loads:
            seen[chip] = (chip, loads[0][1], ents, raw)
        calls = [list(seen.values())]
    kept_list = []
    for ci, call in enumerate(calls):
        if case.get("same_list") and not case["via_map"]:
            # one list object, edited in place by its owner between loads
            kept_list[:] = call[0][2]
            call[0] = call[0][:2] + (kept_list,) + call[0][3:]
            if ci:
                ctx.hit("same_list_object_again")
        before = {xy: list(ch.router) for xy, ch in m.chips.items()}
        free = {xy: ch.largest_free_rtr_block() for xy, ch in m.chips.items()}
        mark = len(m.cmds)
        for ch in m.chips.values():
            ch.writes = []
        del m.protocol_errors[:]
        app = call[0][1]
        try:
            if case["via_map"]:
                mc.load_routing_tables({ch_: e for ch_, _, e, _ in call},
                                       app_id=app)
            else:
                chip, _, ents, raw = call[0]
                mc.load_routing_table_entries(ents, chip[0], chip[1], app)
            err = None
        except r.mcm.SpiNNakerRouterError as e:
            err = e
        except Exception as e:
            raise Violation("unexpected-exception", "%s: %s" %
                            (type(e).__name__, e),
                            protocol=m.protocol_errors[:3])
        cmds = m.cmds[mark:]
        check(not m.protocol_errors, "malformed-router-command",
              "; ".join(m.protocol_errors[:3]))
        wanted = {chip: (ents, raw) for chip, _, ents, raw in call}
        for xy, ch in m.chips.items():
            where = dict(chip=xy, app=app, free_block=free[xy],
                         entries=len(wanted[xy][1]) if xy in wanted else None)
            changed = [i_ for i_ in range(1024)
                       if ch.router[i_] != before[xy][i_]]
            if xy not in wanted:
                check(not changed and not ch.writes, "other-chip-touched",
                      "router slots %r, writes %r" % (changed[:3],
                                                      ch.writes[:2]), **where)
                continue
            raw = wanted[xy][1]
            n = len(raw)
            refused = err is not None and tuple(err.chip) == xy
            if refused:
                ctx.hit("router_refusal")
                check(case["rtr_fail"] or n > free[xy] or n == 0,
                      "router-error-although-block-available",
                      "%s with %d entries, largest free block %d" %
                      (err, n, free[xy]), **where)
                check(err.count == n, "router-error-count", "%r != %d" %
                      (err.count, n), **where)
            if refused or (err is not None and not changed):
                installs = [cm for cm in cmds
                            if cm[1][:2] == xy and cm[0] in (M.CMD["write"],
                                                             M.CMD["router"])]
                check(not changed and (not installs or not refused),
                      "installed-despite-refusal",
                      "slots %r commands %r" % (changed[:3],
                                                [cm[0] for cm in installs]),
                      **where)
                continue
            if n == 0:
                check(not changed, "empty-table-changed-router", "", **where)
                continue
            ctx.hit("router_load_checked")
            check(not case["rtr_fail"] and n <= free[xy],
                  "load-succeeded-without-block",
                  "%d entries, largest free block %d" % (n, free[xy]),
                  **where)
            check(changed and
                  changed == list(range(changed[0], changed[0] + n)),
                  "installed-block-shape",
                  "router slots changed: %r..%r (%d slots) for %d entries" %
                  (changed[:1], changed[-1:], len(changed), n), **where)
            base = changed[0]
            check(all(before[xy][i_] is None for i_ in changed),
                  "installed-over-used-entries", "base %d" % base, **where)
            for i_, (route, key, mask) in enumerate(raw):
                got = ch.router[base + i_]
                check(got[:4] == (routebits(route), key, mask, app),
                      "installed-entry-differs",
                      "slot %d holds route %#x key %#x mask %#x app %d, "
                      "entry %d is route %#x key %#x mask %#x app %d" %
                      ((base + i_,) + got[:4] + (i_, routebits(route), key,
                                                 mask, app)), **where)
            for a, ln in ch.writes:
                check(ch.sdram_sys <= a and a + ln <= ch.sdram_sys + 16 * n,
                      "write-outside-staging-buffer",
                      "chip %r [%#x, %#x)" % (xy, a, a + ln), **where)
            if n >= 2 and any(before[xy][i_] is not None
                              for i_ in range(base)):
                nt = True
            if ci % 2 == 0 or n < 5:
                ctx.hit("readback_checked")
                back = mc.get_routing_table_entries(xy[0], xy[1])
                check(len(back) == 1024, "readback-length", str(len(back)),
                      **where)
                for i_, slot in enumerate(back):
                    e = ch.router[i_]
                    if e is None:
                        check(slot is None, "readback-free-slot",
                              "slot %d reads back %r" % (i_, slot), **where)
                        continue
                    check(slot is not None, "readback-used-slot-none",
                          "slot %d" % i_, **where)
                    ent, a_, core = slot
                    check(routebits(int(b) for b in ent.route) == e[0] and
                          ent.key == e[1] and ent.mask == e[2] and
                          a_ == e[3], "readback-entry-differs",
                          "slot %d reads back %r app %r, router holds route "
                          "%#x key %#x mask %#x app %d" %
                          ((i_, ent, a_) + e[:4]), **where)
        if err is None:
            for chip, _, ents, raw in call:
                pass
    return nt


def run(case, ctx):
    nt = run_forest(case, ctx) if case["kind"] == "forest" else \
        run_load(case, ctx)
    if nt:
        ctx.mark_nontrivial()
    return "ok"
