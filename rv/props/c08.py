"""C08 - bit-field keys are collision-free: fields never overlap or overflow.

Oracle: an independent shadow of the field hierarchy built from the calls the
workload issues (each field = name, scope of required (field, value) pairs,
explicit start/length, tags, largest value seen).  Two fields can be present
together iff their scopes do not require different values of the same field.
"""
import itertools

from ..core import check, Violation

ID = "C08"
IMPORTS = ['rig.bitfield']
LEVEL = "exploration"
TECHNIQUE = ("runtime reference-model monitor: shadow field hierarchy judged "
             "against add_field / __call__ / assign_fields / get_* results "
             "over generated call histories")
LEVEL_TEXT = ("Generated histories (field trees of depth <= 4, sibling scopes "
              "re-using names, multi-field requirements, fixed/auto start x "
              "fixed/auto length, tags, lengths 1-64, keys used to the last "
              "bit, define / give-values / layout interleaved, layout "
              "repeated) drive the real BitField; after each step the shadow "
              "decides what had to happen (rejections, success of layout) and "
              "after layout every pair of co-present fields, every width, "
              "every read-back, every mask (plain and per tag) and pairwise "
              "key/mask non-intersection of complete assignments is checked.")
LEVEL_NOTE = ("Trusted: the shadow's scope-compatibility rule and width "
              "computation (bit_length of the largest value seen).")
RULE = ("one case = one bit-field length and a history of 5-40 calls ending "
        "in layout + queries; non-trivial = layout succeeded with >= 3 "
        "fields of which >= 2 share bits (sibling scopes overlap) or the key "
        "is used to its last bit; distinct by case")
ASSUMPTIONS = [
    "values < 2**47 (float log over-sizes all-ones values >= 2**48 by one "
    "bit: safe, but can defeat the success clause)",
    "success of assign_fields is demanded unconditionally when no field is "
    "explicitly positioned and the widths of ALL fields sum to <= length; "
    "when only the co-present sums fit, a failure is the listed known finding",
    "key/mask pairs of different complete assignments are required not to "
    "intersect (stronger than, and implied for correct code by, 'never match "
    "each other')",
]
FLOORS = {"kept_object_asked_again": 5000, "kept_object_mask_must_change": 500, "layout_ok": 300, "pair_disjoint": 2000, "readback": 1500,
          "must_layout": 100, "must_reject": 30, "tag_mask": 300,
          "collision_pairs": 500, "last_bit_used": 20}
SHARDS = {"quick": 16, "thorough": 64}
CLASSES = ["auto", "auto_full", "explicit", "mixed", "tags", "reuse", "deep",
           "interleaved", "crossbranch", "fragment", "reuse_fixed",
           "grow_fixed", "fixed_auto_many", "revisit_big"]
OWN_ATTRIBUTES = {"length", "fields", "field_values", "get_value", "get_mask",
                  "add_field", "keys"}   # attribute access finds these first
KF_KEY = "assign-fields-first-fit-fragmentation"
KF2_KEY = "add-field-cross-level-scope-recursion"
ANCHORS = [("rig.bitfield", "BitField._assign_field",
            {"first_fit_found": "start_at = bit",
             "explicit_position": "field_bits = ((1 << length) - 1) << "
                                  "start_at"})]


def fresh(d):
    """the same values as objects of their own: a caller computes a field's
    value anew each time (a second loop, another module), and equal integers
    above 256 are then different objects"""
    return {k: (int(str(v)) if type(v) is int else v) for k, v in d.items()}


def plan(tier):
    n = 1500 if tier == "quick" else 150000
    return [(c, n) for c in CLASSES]


TAGSETS = [["t1"], ["t2", "t3"]]     # caller-owned set objects, re-used


def tag_list(tags):
    """the tag names a literal `tags` description stands for"""
    if isinstance(tags, str):
        return tags.split()
    if isinstance(tags, tuple) and tags and tags[0] == "set":
        return list(TAGSETS[tags[1]])
    if isinstance(tags, tuple) and tags and tags[0] == "tuple":
        return list(tags[1])
    return tags


# ------------------------------------------------------------------ shadow
def compatible(s1, s2):
    for k, v in s1.items():
        if k in s2 and s2[k] != v:
            return False
    return True


class F(object):
    def __init__(self, name, scope, length, start, tags):
        self.name, self.scope = name, dict(scope)
        self.length, self.start = length, start
        self.tags = set(tags or ())
        self.maxv = 1
        self.loc = None         # (start, length) observed after layout

    def width(self):
        return self.length or max(self.maxv, 1).bit_length()


class Shadow(object):
    def __init__(self, L):
        self.L = L
        self.fields = []

    def potential(self, scope):
        return [f for f in self.fields if compatible(f.scope, scope)]

    def enabled(self, assign):
        return [f for f in self.fields
                if all(assign.get(k, None) == v for k, v in f.scope.items())
                and all(k in assign for k in f.scope)]

    def lookup(self, name, assign):
        for f in self.enabled(assign):
            if f.name == name:
                return f
        return None

    def valid(self, assign):
        return all(self.lookup(k, assign) is not None for k in assign)

    def judge_values(self, assign):
        """-> None if the assignment must be accepted, else a reason"""
        if not self.valid(assign):
            return "unavailable"
        for k, v in assign.items():
            f = self.lookup(k, assign)
            if v < 0:
                return "negative"
            fixed = f.length if f.length is not None else (
                f.loc[1] if f.loc else None)
            if fixed is not None and v >= 1 << fixed:
                return "too-large"
        return None

    def see_values(self, assign):
        for k, v in assign.items():
            f = self.lookup(k, assign)
            f.maxv = max(f.maxv, v)

    def judge_add(self, scope, name, length, start):
        """-> (must_reject_reason or None, may_reject)"""
        if any(f.name == name for f in self.potential(scope)):
            return "duplicate", True
        if length is not None and length <= 0:
            return "zero-length", True
        if start is not None:
            n = length or 1
            if start < 0 or start >= self.L or start + n > self.L:
                return "overflow", True
            for g in self.potential(scope):
                gs = g.start if g.start is not None else (
                    g.loc[0] if g.loc else None)
                if gs is None:
                    continue
                gn = g.length or (g.loc[1] if g.loc else 1)
                # rig uses (length or 1): a lower bound of the final width,
                # so an overlap found this way is a real overlap
                gn_lb = g.length or 1
                if start + n > gs and gs + gn_lb > start:
                    return "overlap", True
                if start + n > gs and gs + gn > start:
                    return None, True       # overlaps the laid-out width
            return None, False
        return None, False

    def add(self, scope, name, length, start, tags):
        f = F(name, scope, length, start, tags)
        self.fields.append(f)
        for k in scope:
            p = self.lookup(k, scope)
            p.tags |= f.tags
        return f

    def chain_scope(self, scope):
        """Can rig's tree address this scope?  The fields named in it must
        form a chain of levels: each deeper field was defined under exactly
        the values of all shallower levels."""
        level = {}
        rest = dict(scope)
        while rest:
            names = [k for k in rest
                     if any(f.name == k and f.scope == level
                            for f in self.fields)]
            if not names:
                return False
            for k in names:
                level[k] = rest.pop(k)
        return True

    def scopes(self):
        out = []
        for f in self.fields:
            if f.scope not in out:
                out.append(f.scope)
        return out

    def max_copresent(self):
        scopes = self.scopes()
        best = 0
        n = len(scopes)
        if n > 12:
            return None
        for r in range(1, n + 1):
            for combo in itertools.combinations(scopes, r):
                u = {}
                ok = True
                for s in combo:
                    if not compatible(s, u):
                        ok = False
                        break
                    u.update(s)
                if ok:
                    best = max(best, sum(f.width() for f in self.enabled(u)))
        return best


# --------------------------------------------------------------- generator
def gen(cls, idx, rng, tier):
    L = rng.choice([16, 32, 32, 64, 64, rng.randint(1, 64), 96, 128])
    if cls == "fragment":
        return gen_fragment(rng)
    if cls == "reuse_fixed":
        return gen_reuse_fixed(rng)
    if cls == "revisit_big":
        return gen_revisit_big(rng)
    if cls == "grow_fixed":
        return gen_grow_fixed(rng)
    if cls == "fixed_auto_many":
        return gen_fixed_auto_many(rng)
    sh = Shadow(L)
    ops = []
    explicit_p = {"auto": 0, "auto_full": 0, "explicit": .7, "mixed": .3,
                  "tags": .1, "reuse": .1, "deep": .15, "interleaved": .25,
                  "crossbranch": 0}[cls]
    tag_p = .6 if cls == "tags" else .15
    counter = [0]
    scopes = [{}]

    def fresh(scope):
        if cls in ("reuse", "deep") and rng.random() < .5:
            cands = sorted({f.name for f in sh.fields
                            if not any(g.name == f.name
                                       for g in sh.potential(scope))})
            if cands:
                return rng.choice(cands)
        if rng.random() < .04 and sh.potential(scope):
            return rng.choice(sh.potential(scope)).name     # duplicate
        counter[0] += 1
        if rng.random() < .05:
            # ordinary header-field names that happen to be names of the
            # BitField object's own attributes and methods
            nm = rng.choice(["length", "fields", "field_values", "get_value",
                             "get_mask", "add_field", "keys"])
            if not any(f.name == nm for f in sh.fields):
                return nm
        return "f%d" % counter[0]

    def add_one():
        scope = dict(rng.choice(scopes))
        name = fresh(scope)
        length = rng.choice([None, None, 1, 2, 3, 5, rng.randint(1, 8)])
        if rng.random() < .02:
            length = rng.choice([0, -1, L, L + 1])
        start = None
        if rng.random() < explicit_p:
            start = rng.randrange(L)
            if rng.random() < .06:
                start = rng.choice([-1, L, L - 1, L + 3, -L])
        tags = None
        if rng.random() < tag_p:
            tags = rng.choice([["t1"], ["t2"], ["t1", "t2"], "t1 t3", [],
                               ("set", 0), ("set", 1), ("set", 0),
                               ("tuple", ["t2", "t3"])])
        ops.append(("add", scope, name, length, start, tags))
        must, may = sh.judge_add(scope, name, length, start)
        if must is None and not may:
            f = sh.add(scope, name, length, start, tag_list(tags))
            # open child scopes on some values of this field
            depth = len(scope)
            if rng.random() < (.7 if cls == "deep" else .45) and depth < 4:
                hi = (1 << length) - 1 if length else 3
                for v in rng.sample(range(min(hi, 5) + 1),
                                    min(min(hi, 5) + 1, rng.randint(1, 2))):
                    ns = dict(scope)
                    ns[name] = v
                    if sh.judge_values(ns) is None:
                        sh.see_values(ns)
                        scopes.append(ns)
                        if rng.random() < .5:
                            ops.append(("val", dict(ns)))
            # multi-field requirement: combine two compatible scopes
            if rng.random() < (.6 if cls == "crossbranch" else .15) and \
                    len(scopes) > 2:
                a, b = rng.sample(scopes, 2)
                if compatible(a, b) and a != b:
                    u = dict(a)
                    u.update(b)
                    if (u not in scopes and sh.judge_values(u) is None and
                            (sh.chain_scope(u) or cls == "crossbranch")):
                        scopes.append(u)

    def complete(partial=False):
        assign = {}
        changed = True
        while changed:
            changed = False
            for f in sh.enabled(assign):
                if f.name in assign:
                    continue
                if partial and rng.random() < .3:
                    continue
                kids = [s[f.name] for s in scopes if f.name in s and
                        compatible({k: v for k, v in s.items()
                                    if k != f.name}, assign)]
                fixed = f.length if f.length is not None else (
                    f.loc[1] if f.loc else None)
                hi = (1 << fixed) - 1 if fixed else rng.choice(
                    [1, 3, 7, 200, 1000, (1 << rng.randint(1, 40)) - 1,
                     (1 << rng.randint(41, max(42, L - 1))) + 1])
                if kids and rng.random() < .7:
                    v = rng.choice(kids)
                elif not fixed and hi > 1000 and rng.random() < .5:
                    # widths are decided at powers of two
                    k = max(1, hi.bit_length() - 1)
                    v = rng.choice([(1 << k) - 1, 1 << k, (1 << k) + 1, hi])
                else:
                    v = rng.randint(0, hi)
                if rng.random() < .03:
                    v = hi + 1 + rng.randrange(3)       # maybe too large
                elif rng.random() < .01:
                    v = -rng.randint(1, 3)              # must be rejected
                trial = dict(assign)
                trial[f.name] = v
                assign = trial
                changed = True
        return assign

    n_fields = rng.randint(1, 4) if cls == "auto_full" else rng.randint(1, 10)
    for i in range(n_fields):
        add_one()
        if cls == "interleaved" and rng.random() < .3:
            ops.append(("val", complete(partial=True)))
            if sh.judge_values(ops[-1][1]) is None:
                sh.see_values(ops[-1][1])
        if cls == "interleaved" and rng.random() < .2:
            ops.append(("layout",))
            # positions unknown to the generator's shadow: stop adding
            # explicit fields afterwards (their judgement would need them)
            explicit_p = 0
    for _ in range(rng.randint(1, 6)):
        a = complete()
        ops.append(("val", a))
        if sh.judge_values(a) is None:
            sh.see_values(a)
    if cls == "auto_full" and not any(f.start is not None for f in sh.fields):
        # widen the key exactly to the co-present sum: last bit gets used
        m = sh.max_copresent()
        tot = sum(f.width() for f in sh.fields)
        if m and rng.random() < .6:
            L = rng.choice([m, tot]) if m <= 64 else L
    ops.append(("layout",))
    if rng.random() < .3:
        ops.append(("layout",))
    for _ in range(rng.randint(2, 6)):
        ops.append(("query", complete()))
    if cls in ("interleaved", "reuse", "tags", "auto", "deep") and \
            rng.random() < .4:
        # the hierarchy grows after it was first laid out and asked (a
        # third party registers its fields later): more fields, values for
        # them, another layout, the questions again
        explicit_p = 0
        for _ in range(rng.randint(1, 3)):
            add_one()
        for _ in range(rng.randint(1, 3)):
            a = complete()
            ops.append(("val", a))
            if sh.judge_values(a) is None:
                sh.see_values(a)
        ops.append(("layout",))
        for _ in range(rng.randint(2, 4)):
            ops.append(("query", complete()))
    return dict(L=L, ops=ops)


def gen_grow_fixed(rng):
    """Two independent selectors.  Under one of them fixed fields; under the
    other a field with a fixed START but automatic length whose values make
    it grow towards (and perhaps into) those fixed fields, which it can be
    present with.  Either the layout is refused or nothing overlaps."""
    L = rng.choice([16, 32, 32, 64])
    ops = [("add", {}, "a", 2, L - 2, None),
           ("add", {}, "b", 1, L - 3, None)]
    room = L - 3
    n_scopes = rng.randint(2, 3)
    targets = []
    for v in range(n_scopes):
        ln = rng.randint(1, max(1, room // 5))
        st = rng.randint(room // 3, room - ln)
        targets.append((st, ln))
        ops.append(("add", {"a": v}, "p%d" % v, ln, st, None))
    # scopes of the other selector defined afterwards
    bscope = {"b": rng.randrange(2)}
    st0, ln0 = rng.choice(targets)
    gap = rng.randint(1, 4)
    start = max(0, st0 - gap)
    ops.append(("add", bscope, "g", None, start, None))
    if rng.random() < .5:
        ops.append(("add", {"b": 1 - bscope["b"]}, "h", None, None, None))
    width = rng.choice([gap - 1, gap, gap + 1, gap + ln0, gap + 2])
    width = max(1, width)
    big = (1 << width) - 1
    for v in rng.sample(range(n_scopes), rng.randint(1, n_scopes)):
        ops.append(("val", dict(bscope, a=v, g=rng.choice([big, 1, big >> 1]))))
    ops.append(("val", dict(bscope, g=big)))
    ops.append(("layout",))
    for v in range(n_scopes):
        q = dict(bscope, a=v, g=big)
        q["p%d" % v] = 0
        ops.append(("query", q))
    return dict(L=L, ops=ops)


def gen_fixed_auto_many(rng):
    """Three to seven fields of ONE scope with a fixed start and automatic
    length, a few bits apart, defined in any order and all sized by the same
    layout call from values that make some of them just reach, and some run
    into, a neighbour - which need not be the field defined or sized just
    before.  Fixed-size and floating fields in between.  Either the layout
    is refused or nothing overlaps."""
    L = rng.choice([16, 24, 32, 32, 64])
    scope = {}
    ops = []
    if rng.random() < .4:
        ops.append(("add", {}, "s", 1, L - 1, None))
        scope = {"s": rng.randrange(2)}
        L_room = L - 1
    else:
        L_room = L
    n = rng.randint(3, 7)
    starts = []
    pos = rng.randint(0, 3)
    for _ in range(n):
        starts.append(pos)
        pos += rng.randint(1, max(2, L_room // n))
    starts = [st for st in starts if st < L_room]
    order = list(range(len(starts)))
    if rng.random() < .7:
        rng.shuffle(order)
    kinds = {}
    for i in order:
        nxt = starts[i + 1] if i + 1 < len(starts) else L_room
        gap = nxt - starts[i]
        c = rng.random()
        if c < .15:
            # a fully explicit field among them
            kinds[i] = ("fixed", max(1, min(gap, rng.randint(1, 3))))
            ops.append(("add", scope, "f%d" % i, kinds[i][1], starts[i],
                        None))
        else:
            w = rng.choice([1, gap - 1, gap, gap, gap + 1, gap + 2,
                            gap + rng.randint(1, 6)])
            kinds[i] = ("auto", max(1, w))
            ops.append(("add", scope, "f%d" % i, None, starts[i], None))
    if rng.random() < .3:
        ops.append(("add", scope, "fl", None, None, None))
    vals = dict(scope)
    for i in order:
        k, w = kinds[i]
        top = (1 << w) - 1
        vals["f%d" % i] = rng.choice([top, top, max(1, top >> 1) + 1
                                      if w > 1 else 1])
    # one call giving every value, or one call per field in any order
    if rng.random() < .5:
        ops.append(("val", dict(vals)))
    else:
        names = [k for k in vals if k not in scope]
        rng.shuffle(names)
        for nm in names:
            ops.append(("val", dict(scope, **{nm: vals[nm]})))
    ops.append(("layout",))
    small = dict(scope)
    for i in order:
        small["f%d" % i] = rng.randrange(2)
    ops.append(("query", small))
    ops.append(("query", dict(vals)))
    return dict(L=L, ops=ops)


def gen_revisit_big(rng):
    """Scopes selected by LARGE values of a field (core 300, 301, ...), each
    visited twice: first a field at a fixed position, then - later, with
    the selector value computed anew - a second field at a fixed position
    that overlaps the first, touches it, or is clear of it."""
    L = rng.choice([32, 32, 64])
    w = rng.choice([10, 13, 16])
    ops = [("add", {}, "core", w, L - w, None)]
    room = L - w
    base = rng.choice([257, 300, 1000, (1 << w) - 5, 256, 255, 3])
    vals = [base + i for i in range(rng.randint(1, 4))]
    n_ln = rng.randint(2, 8)
    n_st = rng.randint(0, room - n_ln - 4)
    for v in vals:
        ops.append(("add", {"core": v}, "neuron", n_ln, n_st, None))
    if rng.random() < .5:
        ops.append(("val", {"core": vals[0], "neuron": 1}))
    for v in vals:
        mode = rng.choice(["inside", "edge", "clear", "clear"])
        ln = rng.randint(1, 4)
        if mode == "inside":
            st = n_st + rng.randint(0, n_ln - 1)
        elif mode == "edge":
            st = max(0, n_st - ln + 1)
        else:
            st = n_st + n_ln if n_st + n_ln + ln <= room else 0
            if st == 0 and n_st < ln:
                st = n_st + n_ln
        ops.append(("add", {"core": v}, "kind", ln, st, None))
    ops.append(("layout",))
    for v in vals:
        ops.append(("query", {"core": v, "neuron": 1, "kind": 0}))
    return dict(L=L, ops=ops)


def gen_reuse_fixed(rng):
    """Sibling scopes re-use a field name at different fixed positions; a
    field defined afterwards, where the selector is still open, may overlap
    one of the namesakes, the other, both or neither."""
    L = rng.choice([16, 32, 32, 64])
    ops = [("add", {}, "s", 2, L - 2, None),
           ("add", {}, "t", 1, L - 3, None)]
    room = L - 3
    spots = []
    n_same = rng.randint(2, 3)
    for v in range(n_same):
        ln = rng.randint(1, max(1, room // 4))
        st = rng.randint(0, room - ln)
        spots.append((st, ln))
        ops.append(("add", {"s": v}, "n", ln, st, None))
    if rng.random() < .5:
        ops.append(("val", {"s": rng.randrange(n_same), "t": 0}))
    # the newcomer: at the top level or under the other selector
    scope = rng.choice([{}, {"t": 0}, {"t": 1}])
    st0, ln0 = rng.choice(spots)
    mode = rng.choice(["inside", "left", "right", "cover", "clear"])
    if mode == "inside":
        ln = rng.randint(1, ln0)
        st = st0 + rng.randint(0, ln0 - ln)
    elif mode == "left":
        ln = rng.randint(1, 4)
        st = max(0, st0 - ln + 1)
    elif mode == "right":
        ln = rng.randint(1, 4)
        st = min(room - ln, st0 + ln0 - 1)
    elif mode == "cover":
        st = max(0, st0 - 1)
        ln = min(room - st, ln0 + 2)
    else:
        ln = rng.randint(1, 3)
        st = rng.randint(0, room - ln)
    ops.append(("add", scope, "z", ln, st, None))
    ops.append(("layout",))
    for v in range(n_same):
        ops.append(("query", {"s": v, "t": rng.randrange(2), "n": 0, "z": 0}))
    return dict(L=L, ops=ops)


def gen_fragment(rng):
    """Shapes in which leaf-first first-fit leaves holes: two exclusive
    branches of different width under p, a field x that must avoid both, and a
    wide field y that can only coexist with the narrow branch."""
    wa = rng.randint(1, 3)
    wb = wa + rng.randint(1, 4)
    wx = rng.randint(1, 2)
    wy = (wb - wa) + rng.randint(1, 3)
    ops = [("add", {}, n, 1, None, None) for n in ("p", "q", "r")]
    ops += [("add", {"p": 0}, "A", wa, None, None),
            ("add", {"p": 1}, "B", wb, None, None),
            ("add", {"q": 0}, "x", wx, None, None),
            ("add", {"p": 0, "r": 0}, "y", wy, None, None)]
    co = 3 + max(wa + wx + wy, wb + wx)
    total = 3 + wa + wb + wx + wy
    L = rng.choice([co, co + 1, total - 1, total])
    ops.append(("layout",))
    ops.append(("query", {"p": 0, "q": 0, "r": 0, "A": 1, "x": 1, "y": 1}))
    ops.append(("query", {"p": 1, "q": 0, "r": 1, "B": 1, "x": 0}))
    return dict(L=L, ops=ops)


# ------------------------------------------------------------------ oracle
def bits(s, l):
    return ((1 << l) - 1) << s


def run(case, ctx):
    import importlib
    B = importlib.import_module("rig.bitfield")
    L = case["L"]
    bf = B.BitField(L)
    sh = Shadow(L)
    caller_sets = [set(t) for t in TAGSETS]
    laid_out = False
    queries = []
    kept = []
    trace = []

    def call(what, fn, *a, **k):
        try:
            return True, fn(*a, **k)
        except (ValueError, LookupError) as e:
            return False, e
        except Exception as e:
            raise Violation("unexpected-exception", "%s: %s: %s" %
                            (what, type(e).__name__, e), trace=trace[-6:])

    for op in case["ops"]:
        kind = op[0]
        trace.append(op)
        if kind == "add":
            _, scope, name, length, start, tags = op
            why = sh.judge_values(scope)
            ok, scoped = call("bf(**%r)" % scope, lambda: bf(**fresh(scope)))
            if why is not None:
                check(not ok, "bad-scope-accepted", "%r (%s)" % (scope, why))
                continue
            check(ok, "scope-rejected", "bf(**%r): %s" % (scope, scoped))
            sh.see_values(scope)
            must, may = sh.judge_add(scope, name, length, start)
            if isinstance(tags, tuple) and tags and tags[0] == "set":
                real_tags = caller_sets[tags[1]]    # the SAME object again
            elif isinstance(tags, tuple) and tags and tags[0] == "tuple":
                real_tags = tuple(tags[1])
            else:
                real_tags = tags
            try:
                ok, res = call("add_field", lambda: scoped.add_field(
                    name, length=length, start_at=start, tags=real_tags))
            except Violation as v:
                if "RecursionError" in v.msg and must is None and \
                        not sh.chain_scope(scope):
                    ctx.finding(
                        "add-field-recursion", KF2_KEY,
                        "bf(**%r).add_field(%r) raised RecursionError: the "
                        "scope combines values of fields defined at "
                        "different levels/branches of the hierarchy" %
                        (scope, name),
                        fields=[(f.name, f.scope) for f in sh.fields])
                    ctx.note(dict(aborted="bit field unusable after the "
                                          "recursion"))
                    return "ok"
                raise
            if must is not None:
                ctx.hit("must_reject")
                check(not ok and isinstance(res, ValueError),
                      "invalid-definition-accepted",
                      "add_field(%r, length=%r, start_at=%r) in scope %r "
                      "should be rejected (%s) in a %d-bit field" %
                      (name, length, start, scope, must, L), trace=trace[-6:])
                continue
            if not ok:
                check(may or start is not None, "definition-rejected",
                      "add_field(%r, length=%r, start_at=%r) in scope %r "
                      "raised %s: %s" % (name, length, start, scope,
                                         type(res).__name__, res),
                      trace=trace[-6:])
                ctx.count("explicit_definition_rejected")
                continue
            sh.add(scope, name, length, start, tag_list(tags))
            laid_out = False
            for k_, want_ in enumerate(TAGSETS):
                check(caller_sets[k_] == set(want_), "caller-tags-modified",
                      "the set passed as tags= is now %r" %
                      (sorted(caller_sets[k_]),), trace=trace[-4:])
        elif kind == "val":
            assign = op[1]
            why = sh.judge_values(assign)
            ok, res = call("bf(**%r)" % assign, lambda: bf(**fresh(assign)))
            if why is None:
                check(ok, "values-rejected", "bf(**%r) raised %s: %s" %
                      (assign, type(res).__name__, res), trace=trace[-6:])
                sh.see_values(assign)
            else:
                check(not ok, "bad-values-accepted", "bf(**%r) accepted (%s)" %
                      (assign, why), trace=trace[-6:])
        elif kind == "layout":
            explicit = any(f.start is not None for f in sh.fields)
            total = sum(f.width() for f in sh.fields)
            ok, res = call("assign_fields", bf.assign_fields)
            if not ok:
                check(isinstance(res, ValueError), "layout-wrong-exception",
                      repr(res))
                ctx.hit("layout_failed")
                laid_out = False
                if not explicit:
                    check(total > L, "layout-failed-but-fits",
                          "assign_fields raised '%s' although no field is "
                          "explicitly positioned and all %d fields together "
                          "need only %d of %d bits" %
                          (res, len(sh.fields), total, L), trace=trace[-8:])
                    m = sh.max_copresent()
                    if m is not None and m <= L:
                        ctx.finding(
                            "layout-failed-copresent-fits", KF_KEY,
                            "assign_fields raised '%s'; no explicit positions;"
                            " largest co-present width sum %d <= %d bits "
                            "(all fields together: %d)" % (res, m, L, total),
                            fields=[(f.name, f.scope, f.width())
                                    for f in sh.fields])
                # some fields may have been given positions: refresh
                for f in sh.fields:
                    o, loc = call("loc", lambda f=f: bf(**fresh(f.scope))
                                  .get_location_and_length(f.name))
                    f.loc = tuple(loc) if o else f.loc
                continue
            ctx.hit("layout_ok")
            if not explicit and total <= L:
                ctx.hit("must_layout")
            laid_out = True
            if any(f.loc is None for f in sh.fields):
                # keys made before the hierarchy grew are keys of another
                # hierarchy: collisions are judged among keys of one layout
                collide(ctx, queries)
                del queries[:]
            check_layout(ctx, bf, sh, call, trace)
        elif kind == "query":
            if not laid_out:
                continue
            # objects the application obtained (and asked) earlier are still
            # in its hands: their masks describe the hierarchy as it is NOW,
            # whoever extended it in the meantime
            for a_old, b_old, m_then in kept[-6:]:
                if sh.judge_values(a_old) is not None:
                    continue
                want_old = 0
                for f in sh.enabled(a_old):
                    want_old |= bits(*f.loc)
                if want_old != m_then:
                    ctx.hit("kept_object_mask_must_change")
                ok, m_old = call("get_mask", b_old.get_mask)
                ctx.hit("kept_object_asked_again")
                check(ok and m_old == want_old, "mask-not-union",
                      "an object made earlier with %r now reports mask %r; "
                      "the fields present with those values cover %#x" %
                      (a_old, m_old, want_old), trace=trace[-8:])
                for t in ("t1", "t2", "t3"):
                    tagged = [f for f in sh.enabled(a_old) if t in f.tags]
                    ok, tm = call("get_mask(tag)",
                                  lambda: b_old.get_mask(tag=t))
                    if tagged:
                        want_t = 0
                        for f in tagged:
                            want_t |= bits(*f.loc)
                        check(ok and tm == want_t, "tag-mask",
                              "an object made earlier with %r: tag %r mask %r"
                              ", tagged fields present cover %#x" %
                              (a_old, t, tm, want_t), trace=trace[-8:])
            assign = op[1]
            if sh.judge_values(assign) is not None:
                ok, _ = call("bf(**fresh(assign))", lambda: bf(**fresh(assign)))
                check(not ok, "bad-values-accepted", repr(assign))
                continue
            ok, b = call("bf(**fresh(assign))", lambda: bf(**fresh(assign)))
            check(ok, "values-rejected", "bf(**%r): %s" % (assign, b))
            sh.see_values(assign)
            en = sh.enabled(assign)
            if any(f.name not in assign for f in en):
                continue
            km = check_query(ctx, b, sh, assign, en, call, B)
            queries.append((assign, km))
            kept.append((dict(assign), b, km[1]))
            # the same bit field with only some of the values given: the mask
            # is the union of the fields that are present THEN (a scope whose
            # selector has no value yet contributes nothing)
            import random as _r
            prng = _r.Random(len(queries) * 7919 + L + len(assign))
            part = {k: v for k, v in assign.items() if prng.random() < .6}
            shrinking = True
            while shrinking:
                shrinking = False
                present = {f.name for f in sh.enabled(part)}
                for k in list(part):
                    if k not in present:
                        del part[k]
                        shrinking = True
            if len(part) < len(assign):
                ok, bp = call("bf(**partial)", lambda: bf(**fresh(part)))
                check(ok, "values-rejected", "bf(**%r): %s" % (part, bp))
                ok, pm = call("get_mask", bp.get_mask)
                want_pm = 0
                for f in sh.enabled(part):
                    want_pm |= bits(*f.loc)
                ctx.hit("partial_mask")
                check(ok and pm == want_pm, "mask-not-union",
                      "with only %r given the mask is %r, the fields present "
                      "then cover %#x" % (part, pm, want_pm), assign=assign)
                kept.append((dict(part), bp, pm))
            # a value, once given, cannot be given again on the derived
            # bit field; unknown fields are refused; equality is by value
            if assign:
                k0 = sorted(assign)[0]
                ok, r2 = call("re-assign", lambda: b(**{k0: assign[k0]}))
                check(not ok and isinstance(r2, ValueError),
                      "value-reassigned", "%r given twice: %r" % (k0, r2))
                check(k0 in OWN_ATTRIBUTES or
                      getattr(b, k0) == assign[k0], "attribute-value",
                      "%r reads %r" % (k0, getattr(b, k0)))
            ok, r3 = call("unknown field", lambda: b(no_such_field_=1))
            check(not ok and isinstance(r3, LookupError),
                  "unknown-field-accepted", repr(r3))
            ok, b2 = call("again", lambda: bf(**fresh(assign)))
            check(ok and b2 == b and not (b2 != b), "equal-assignments-differ",
                  repr(assign))
            try:
                b.get_mask(tag="t1", field="f1")
                both = None
            except TypeError as e:
                both = e
            check(both is not None, "tag-and-field-accepted", "")
    collide(ctx, queries)
    share = False
    if laid_out:
        for f, g in itertools.combinations(sh.fields, 2):
            if f.loc and g.loc and bits(*f.loc) & bits(*g.loc):
                share = True
        top = any(f.loc and f.loc[0] + f.loc[1] == L for f in sh.fields)
        if top:
            ctx.hit("last_bit_used")
        if len(sh.fields) >= 3 and (share or top):
            ctx.mark_nontrivial()
    ctx.note(dict(fields=[(f.name, f.scope, f.loc) for f in sh.fields][:12],
                  laid_out=laid_out, queries=len(queries)))
    return "ok"


def collide(ctx, queries):
    for (a1, (k1, m1)), (a2, (k2, m2)) in itertools.combinations(queries, 2):
        if a1 == a2:
            check((k1, m1) == (k2, m2), "same-assignment-different-key",
                  "%r" % (a1,))
            continue
        ctx.hit("collision_pairs")
        check((k1 & m2) != (k2 & m1), "keys-collide",
              "%r -> %#x/%#x and %r -> %#x/%#x intersect" %
              (a1, k1, m1, a2, k2, m2))


def check_layout(ctx, bf, sh, call, trace):
    L = sh.L
    for f in sh.fields:
        ok, loc = call("get_location_and_length",
                       lambda f=f: bf(**fresh(f.scope)).get_location_and_length(
                           f.name))
        check(ok, "no-location-after-layout", "field %r in %r: %s" %
              (f.name, f.scope, loc), trace=trace[-6:])
        s, l = loc
        f.loc = (s, l)
        check(isinstance(s, int) and isinstance(l, int) and l >= 1 and
              s >= 0 and s + l <= L, "field-outside-bitfield",
              "field %r at %d+%d in a %d-bit field" % (f.name, s, l, L))
        if f.start is not None:
            check(s == f.start, "explicit-start-moved", "%r: %d != %d" %
                  (f.name, s, f.start))
        if f.length is not None:
            check(l == f.length, "explicit-length-changed", "%r: %d != %d" %
                  (f.name, l, f.length))
        check(l >= max(f.maxv, 1).bit_length(), "field-too-narrow",
              "field %r is %d bits but was given the value %d" %
              (f.name, l, f.maxv), scope=f.scope)
    for f, g in itertools.combinations(sh.fields, 2):
        if compatible(f.scope, g.scope):
            ctx.hit("pair_disjoint")
            check(not (bits(*f.loc) & bits(*g.loc)), "fields-overlap",
                  "%r%r at %r and %r%r at %r can be present together" %
                  (f.name, f.scope, f.loc, g.name, g.scope, g.loc),
                  trace=trace[-8:])


def check_query(ctx, b, sh, assign, en, call, B):
    ok, key = call("get_value", b.get_value)
    check(ok, "get-value-failed", "%r: %s" % (assign, key))
    ok, mask = call("get_mask", b.get_mask)
    check(ok, "get-mask-failed", "%r: %s" % (assign, mask))
    want_mask = 0
    for f in en:
        s, l = f.loc
        ok, loc = call("loc", lambda: b.get_location_and_length(f.name))
        check(ok and tuple(loc) == (s, l), "location-differs-by-instance",
              "%r: %r vs %r" % (f.name, loc, (s, l)))
        want_mask |= bits(s, l)
        ctx.hit("readback")
        got = (key >> s) & ((1 << l) - 1)
        check(got == assign[f.name], "readback",
              "field %r = %d reads back as %d from key %#x at %d+%d" %
              (f.name, assign[f.name], got, key, s, l), assign=assign)
        ok, fv = call("get_value(field)", lambda: b.get_value(field=f.name))
        check(ok and fv == assign[f.name] << s, "field-value", "%r: %r" %
              (f.name, fv))
        ok, fm = call("get_mask(field)", lambda: b.get_mask(field=f.name))
        check(ok and fm == bits(s, l), "field-mask", "%r: %r" % (f.name, fm))
        ok, tg = call("get_tags", lambda: b.get_tags(f.name))
        check(ok and set(tg) == f.tags, "tags-differ",
              "field %r: tags %r, expected %r" % (f.name, tg, f.tags))
        if ok and isinstance(tg, set):
            # the set handed back is the caller's: editing it changes no
            # later answer
            tg.add("scribbled-by-the-caller")
            ok, tg2 = call("get_tags", lambda: b.get_tags(f.name))
            check(ok and set(tg2) == f.tags, "tags-differ",
                  "field %r: tags %r after the caller edited the set "
                  "returned by an earlier get_tags(), expected %r" %
                  (f.name, tg2, f.tags))
    check(mask == want_mask, "mask-not-union",
          "mask %#x, union of present fields %#x" % (mask, want_mask),
          assign=assign)
    check(key & ~mask == 0, "key-outside-mask", "%#x / %#x" % (key, mask))
    for t in ("t1", "t2", "t3", "nope"):
        tagged = [f for f in en if t in f.tags]
        ok, tm = call("get_mask(tag)", lambda: b.get_mask(tag=t))
        if not tagged:
            check(not ok and isinstance(tm, B.UnknownTagError),
                  "unknown-tag-accepted", "tag %r: %r" % (t, tm))
            continue
        ctx.hit("tag_mask")
        want = 0
        for f in tagged:
            want |= bits(*f.loc)
            for k in f.scope:       # fields it depends on carry the tag too
                p = sh.lookup(k, assign)
                check(t in p.tags, "oracle", "shadow tag propagation")
        check(ok and tm == want, "tag-mask", "tag %r: mask %r, expected %#x" %
              (t, tm, want), assign=assign)
        check(tm & ~mask == 0, "tag-mask-outside-mask", "")
        ok, tv = call("get_value(tag)", lambda: b.get_value(tag=t))
        check(ok and tv == key & want, "tag-value", "tag %r: %r" % (t, tv))
    return key, mask
