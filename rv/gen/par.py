"""Literal (repr-able) descriptions of place-and-route problems and builders
that turn them into rig objects.

machine     dict(w, h, res={name: qty}, exc={(x, y): {name: qty}},
                 dead_chips=[(x, y)], dead_links=[(x, y, link)])
vertices    [(vid, {name: qty}), ...]          (order = dict insertion order)
nets        [(source, [sinks], weight), ...]
constraints [("loc", v, (x, y)) | ("same", [v, ...]) |
             ("reserve", name, start, stop, (x, y) | None) |
             ("align", name, n) | ("endpoint", v, route)]
Resource names "Cores", "SDRAM", "SRAM" map to rig's sentinels; any other
name is used as a user-defined resource (a plain string).
"""
import collections
import importlib


def rig_par():
    return importlib.import_module("rig.place_and_route")


def res_obj(name):
    """rig's own resource sentinels by name; a user's own resource is named
    by VALUE (a string put together at run time, a tuple): every place that
    mentions it - machine, vertices, constraints - holds an equal key, not
    the same object."""
    par = rig_par()
    std = {"Cores": par.Cores, "SDRAM": par.SDRAM, "SRAM": par.SRAM}
    if name in std:
        return std[name]
    if isinstance(name, str):
        return (name + " ")[:-1]
    if isinstance(name, (tuple, list)):
        return tuple(list(name))
    return name


def build_machine(m):
    par = rig_par()
    from rig.links import Links
    return par.Machine(
        m["w"], m["h"],
        {res_obj(k): v for k, v in m["res"].items()},
        {tuple(xy): {res_obj(k): v for k, v in r.items()}
         for xy, r in m.get("exc", {}).items()},
        {tuple(c) for c in m.get("dead_chips", [])},
        {(x, y, Links(l)) for x, y, l in m.get("dead_links", [])})


def build_vertices(vs):
    return collections.OrderedDict(
        (v, {res_obj(k): q for k, q in r.items()}) for v, r in vs)


def build_nets(nets):
    from rig.netlist import Net
    out = []
    for i, (s, sinks, w) in enumerate(nets):
        if len(sinks) == 1 and i % 2 == 0:
            # the documented single-sink form (the sink may be a tuple: any
            # hashable object is a vertex)
            out.append(Net(s, sinks[0], w))
            continue
        given = list(sinks)
        if isinstance(w, float) and w == 1.0 and i % 3 == 0:
            out.append(Net(s, given))           # default weight
        else:
            out.append(Net(s, given, w))
        # "the list is copied": what the caller does with it afterwards is
        # none of the net's business
        given.append(("never", "a", "vertex"))
    return out


_APP_CLASSES = {}


def _cls(C, name, i):
    """The library's constraint class, or - for every third constraint of a
    list - an application's own class derived from it (an application that
    labels its constraints; an instance of a derived class is an instance
    of the documented class)."""
    base = getattr(C, name)
    if i % 3 != 2:
        return base
    if base not in _APP_CLASSES:
        _APP_CLASSES[base] = type("App" + name, (base,), {
            "__doc__": "application-defined " + name, "label": "app"})
    return _APP_CLASSES[base]


def build_constraints(cons):
    C = importlib.import_module("rig.place_and_route.constraints")
    from rig.routing_table import Routes
    out = []
    for i, c in enumerate(cons):
        k = c[0]
        if k == "loc":
            out.append(_cls(C, "LocationConstraint", i)(c[1], tuple(c[2])))
        elif k == "same":
            out.append(_cls(C, "SameChipConstraint", i)(list(c[1])))
        elif k == "reserve":
            out.append(_cls(C, "ReserveResourceConstraint", i)(
                res_obj(c[1]), slice(c[2], c[3]),
                None if c[4] is None else tuple(c[4])))
        elif k == "align":
            out.append(_cls(C, "AlignResourceConstraint", i)(
                res_obj(c[1]), c[2]))
        elif k == "endpoint":
            out.append(_cls(C, "RouteEndpointConstraint", i)(
                c[1], Routes(c[2])))
        else:
            raise AssertionError(c)
    return out


# ------------------------------------------------------------ model helpers
def live_chips(m):
    dead = {tuple(c) for c in m.get("dead_chips", [])}
    return [(x, y) for x in range(m["w"]) for y in range(m["h"])
            if (x, y) not in dead]


def chip_res(m, xy):
    return dict(m.get("exc", {}).get(tuple(xy), m["res"]))


def reservations_for(cons, xy, name):
    """[(start, stop)] applying to resource `name` on chip xy."""
    return [(c[2], c[3]) for c in cons if c[0] == "reserve" and c[1] == name
            and (c[4] is None or tuple(c[4]) == tuple(xy))
            and c[3] > c[2]]        # an empty range reserves nothing


def capacity(m, cons, xy):
    """resources of chip xy minus every applicable reservation"""
    cap = chip_res(m, xy)
    for name in cap:
        for a, b in reservations_for(cons, xy, name):
            cap[name] -= b - a
    return cap


# --------------------------------------------------------------- generators
def gen_machine(rng, max_w=5, max_h=5, res=None, p_dead=0.3, p_exc=0.4,
                min_w=1, min_h=1):
    w, h = rng.randint(min_w, max_w), rng.randint(min_h, max_h)
    if res is None:
        res = {"Cores": rng.choice([1, 4, 18]),
               "SDRAM": rng.choice([0, 10, 100]), "SRAM": 5}
        if rng.random() < 0.2:
            res["user-res"] = rng.choice([3, 7])
    dead = set()
    if rng.random() < p_dead and w * h > 1:
        for _ in range(rng.randint(1, max(1, w * h // 5))):
            dead.add((rng.randrange(w), rng.randrange(h)))
        if len(dead) == w * h:
            dead.pop()
    exc = {}
    if rng.random() < p_exc:
        for _ in range(rng.randint(1, 3)):
            xy = (rng.randrange(w), rng.randrange(h))
            # (a chip that died - was added to dead_chips - may well keep
            # the entry that described it while it worked)
            if xy not in dead or rng.random() < .5:
                keys = list(res)
                if rng.random() < .5:
                    rng.shuffle(keys)       # same resources, other key order
                exc[xy] = {r: rng.randint(0, res[r] + (1 if rng.random() < .2
                                                       else 0))
                           for r in keys}
    if dead and exc and rng.random() < .3:
        xy = rng.choice(sorted(dead))
        exc[xy] = {r: rng.randint(0, res[r]) for r in res}
    return dict(w=w, h=h, res=dict(res), exc=exc, dead_chips=sorted(dead),
                dead_links=[])


def gen_reservations(rng, m, n_max=3, ends_only=True, p_local=0.5):
    """Disjoint, in-range reserved ranges, listed in random order.  With
    ends_only every chip's reservations (global and local pieces together)
    form a prefix block and/or a suffix block of that chip's range."""
    cons = []
    chips = live_chips(m)
    if not chips:
        return cons
    for name in m["res"]:
        if rng.random() < 0.4:
            continue
        caps = {xy: chip_res(m, xy)[name] for xy in chips}
        same_cap = len(set(caps.values())) == 1
        used = {xy: [] for xy in chips}     # reserved (a, b) per chip

        def free_ok(xys, a, b):
            return all(0 <= a < b <= caps[xy] and
                       all(b <= s or a >= e for s, e in used[xy])
                       for xy in xys)

        def ends(xy):
            pre = 0
            while any(s == pre for s, e in used[xy]):
                pre = [e for s, e in used[xy] if s == pre][0]
            suf = caps[xy]
            while any(e == suf and s >= pre for s, e in used[xy]):
                suf = [s for s, e in used[xy] if e == suf][0]
            return pre, suf
        n_total = rng.randint(1, n_max)
        kinds = [rng.random() < p_local for _ in range(n_total)]
        kinds.sort()                        # globals first, then locals
        for local in kinds:
            if not local and ends_only and not same_cap:
                local = True
            xys = [rng.choice(chips)] if local else chips
            cap = min(caps[xy] for xy in xys)
            if cap <= 0:
                continue
            if ends_only:
                pre, suf = ends(xys[0])
                if suf - pre <= 0:
                    continue
                n = rng.randint(1, max(1, (suf - pre) // 2))
                a, b = (pre, pre + n) if rng.random() < .5 else (suf - n, suf)
            else:
                a = rng.randrange(cap)
                b = min(cap, a + rng.randint(1, max(1, cap // 3)))
            if free_ok(xys, a, b):
                for xy in xys:
                    used[xy].append((a, b))
                cons.append(("reserve", name, a, b,
                             xys[0] if local else None))
    rng.shuffle(cons)
    return cons


# ------------------------------------------------------- faulty machines
VEC = [(1, 0), (1, 1), (0, 1), (-1, 0), (-1, -1), (0, -1)]
FAULT_CLASSES = ["none", "sparse", "dense", "walls", "oneway", "deadchips",
                 "mesh", "mesh_faulty", "thin", "tiny"]


def neighbour(w, h, x, y, l):
    dx, dy = VEC[l]
    return (x + dx) % w, (y + dy) % h


def wrap_links(w, h):
    """every (x, y, link) whose hop crosses the edge of the w x h array"""
    out = []
    for x in range(w):
        for y in range(h):
            for l, (dx, dy) in enumerate(VEC):
                if not (0 <= x + dx < w and 0 <= y + dy < h):
                    out.append((x, y, l))
    return out


def gen_faults(rng, cls, max_side=12):
    """-> dict(w, h, dead_chips, dead_links) for the named fault class"""
    if cls == "thin":
        n = rng.randint(1, max_side)
        w, h = rng.choice([(1, n), (n, 1), (2, n), (n, 2)])
    elif cls == "tiny":
        w, h = rng.choice([(1, 1), (1, 2), (2, 1), (2, 2), (3, 1), (2, 3)])
    else:
        w, h = rng.randint(2, max_side), rng.randint(2, max_side)
    dead_links, dead_chips = set(), set()

    def kill(x, y, l, both=True):
        dead_links.add((x, y, l))
        if both:
            nx, ny = neighbour(w, h, x, y, l)
            dead_links.add((nx, ny, (l + 3) % 6))
    n_links = w * h * 6
    if cls in ("mesh", "mesh_faulty"):
        dead_links.update(wrap_links(w, h))
    if cls in ("sparse", "mesh_faulty", "thin", "tiny"):
        for _ in range(rng.randint(0, max(1, n_links // 40))):
            kill(rng.randrange(w), rng.randrange(h), rng.randrange(6),
                 rng.random() < .8)
    if cls == "dense":
        frac = rng.uniform(0.10, 0.40)
        for _ in range(int(n_links * frac / 2)):
            kill(rng.randrange(w), rng.randrange(h), rng.randrange(6),
                 rng.random() < .85)
    if cls == "oneway":
        for _ in range(rng.randint(1, max(1, n_links // 6))):
            kill(rng.randrange(w), rng.randrange(h), rng.randrange(6), False)
    if cls == "walls":
        for _ in range(rng.randint(1, 3)):
            if rng.random() < .5:       # vertical wall between x0 and x0+1
                x0 = rng.randrange(w)
                gap = rng.randrange(h)
                for y in range(h):
                    if y != gap or rng.random() < .15:
                        for l in (0, 1, 5):
                            kill(x0, y, l)
            else:
                y0 = rng.randrange(h)
                gap = rng.randrange(w)
                for x in range(w):
                    if x != gap or rng.random() < .15:
                        for l in (2, 1, 3):
                            kill(x, y0, l)
    if cls in ("deadchips", "dense", "mesh_faulty") and w * h > 2:
        for _ in range(rng.randint(1 if cls == "deadchips" else 0,
                                   max(1, w * h // 8))):
            dead_chips.add((rng.randrange(w), rng.randrange(h)))
        if cls == "deadchips":
            for _ in range(rng.randint(0, 4)):
                kill(rng.randrange(w), rng.randrange(h), rng.randrange(6))
    if len(dead_chips) >= w * h:
        dead_chips = set(list(dead_chips)[:w * h - 1])
    return dict(w=w, h=h, dead_chips=sorted(dead_chips),
                dead_links=sorted(dead_links))


def strongly_connected(m):
    """Are all live chips mutually reachable over live directed links (a hop
    needs a live source chip, a live link in that direction and a live
    destination chip)?"""
    w, h = m["w"], m["h"]
    dead = {tuple(c) for c in m.get("dead_chips", [])}
    dl = {tuple(l) for l in m.get("dead_links", [])}
    chips = [(x, y) for x in range(w) for y in range(h) if (x, y) not in dead]
    if len(chips) <= 1:
        return True
    fwd = {c: [] for c in chips}
    bwd = {c: [] for c in chips}
    for (x, y) in chips:
        for l in range(6):
            if (x, y, l) in dl:
                continue
            n = neighbour(w, h, x, y, l)
            if n in dead or n == (x, y):
                continue
            fwd[(x, y)].append(n)
            bwd[n].append((x, y))
    for adj in (fwd, bwd):
        seen = {chips[0]}
        stack = [chips[0]]
        while stack:
            c = stack.pop()
            for n in adj[c]:
                if n not in seen:
                    seen.add(n)
                    stack.append(n)
        if len(seen) != len(chips):
            return False
    return True
