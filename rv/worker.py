"""Run one shard of one property's workload in this (fresh) process.

usage: python -m rv.worker <spec.json> <out.json>
spec: {prop, tier, seed, shard, n_shards, [only: [[cls, idx], ...]]}
"""
import importlib
import json
import os
import random
import sys
import time

from . import core
from .core import Ctx, Violation, Rejected


def load_prop(prop_id):
    return importlib.import_module("rv.props." + prop_id.lower())


def run_one(mod, case, ctx, cls="replay", idx=0):
    """Run one case; returns list of violation records (possibly empty)."""
    ctx.case_nontrivial = False
    ctx.case_note = None
    ctx.case_findings = []
    random.seed(0xC0FFEE)
    try:
        from .sim import net as _simnet
        _simnet.CURRENT[0] = None       # next Net starts a fresh clock
    except Exception:
        pass
    out = []
    try:
        outcome = mod.run(case, ctx) or "ok"
    except Rejected as r:
        outcome = "rejected:" + r.how
    except Violation as v:
        outcome = "violation:" + v.kind
        out.append(dict(kind=v.kind, msg=v.msg, detail=core.jsonable(v.detail),
                        key=getattr(v, "key", None) or v.detail.get("key")))
    for f in ctx.case_findings:
        out.append(f)
        if outcome == "ok":
            outcome = "finding:" + f["kind"]
    ctx.outcomes[outcome] += 1
    ctx.classes[cls] += 1
    ctx.evaluations += 1
    if ctx.case_nontrivial:
        ctx.nontrivial.add(core.fingerprint(case))
    return outcome, out


class CaseTimeout(BaseException):
    pass


def _limits():
    """A runaway case must not take the sandbox down: cap the address space
    (unless a sanitizer runtime, which reserves terabytes, is preloaded) and
    arm a per-case wall-clock alarm whose firing is *inconclusive*."""
    import resource
    import signal
    if not os.environ.get("LD_PRELOAD"):
        try:
            resource.setrlimit(resource.RLIMIT_AS, (6 << 30, 6 << 30))
        except Exception:
            pass

    def on_alarm(signum, frame):
        raise CaseTimeout()
    signal.signal(signal.SIGALRM, on_alarm)
    return signal


def ambient(mode, ctx):
    """Settings of the process that are not the library's own but that its
    behaviour may (wrongly) depend on.  0: nothing special.  1: the
    application has logging switched on at DEBUG level (records go to a
    handler that drops them).  2: the working directory is a build directory
    holding files with the names of the library's bundled data files.
    3: python -O (set by the runner: assertions compiled away)."""
    if mode == 1:
        import logging
        root = logging.getLogger()
        root.addHandler(logging.NullHandler())
        root.setLevel(logging.DEBUG)
        ctx.hit("shard_with_debug_logging")
    elif mode == 2:
        import tempfile
        d = tempfile.mkdtemp(prefix="rv-cwd-", dir="/var/tmp")
        for name in ("scamp.boot", "sark.struct", "rig", "boot"):
            with open(os.path.join(d, name), "wb") as f:
                f.write(b"not the file you are looking for\n" * 40)
        os.chdir(d)
        import atexit
        import shutil
        atexit.register(shutil.rmtree, d, True)
        ctx.hit("shard_in_decoy_directory")
    elif mode == 3:
        if sys.flags.optimize:
            ctx.hit("shard_under_python_O")


def main(argv):
    spec = json.load(open(argv[1]))
    t0 = time.time()
    signal = _limits()
    result = dict(spec=spec, violations=[], errors=[], import_error=None)
    ctx = Ctx()
    ambient(spec.get("ambient", 0), ctx)
    cov = None
    if os.environ.get("RV_COVERAGE"):       # development aid, see tools/
        import coverage
        cov = coverage.Coverage(
            data_file=os.path.join(os.environ["RV_COVERAGE"],
                                   "cov.%s.%d" % (spec["prop"],
                                                  spec["shard"])),
            include=[os.path.join(core.REPO, "rig", "*")])
        cov.start()
    try:
        core.use_repo()
        mod = load_prop(spec["prop"])
        if hasattr(mod, "setup"):
            mod.setup(spec["tier"])     # may adjust sys.path (C02: ASan)
        for name in getattr(mod, "IMPORTS", ()):
            importlib.import_module(name)
    except Exception as e:  # un-importable API under test
        result["import_error"] = core.format_tb(e)
        json.dump(result, open(argv[2], "w"))
        return 0
    reach = None
    if getattr(mod, "ANCHORS", None):
        from . import reach as reach_mod
        reach = reach_mod.Reach(mod.ANCHORS)
        reach.start()
    tier, seed = spec["tier"], spec["seed"]
    shard, n_shards = spec["shard"], spec["n_shards"]
    want_samples = {}
    track = getattr(mod, "CRASH_IS_VIOLATION", False)
    case_limit = getattr(mod, "CASE_LIMIT_S", {}).get(
        tier, 120 if tier == "quick" else 900)
    g = 0

    def work():
        if spec.get("replay_case") is not None:
            import ast
            rc = ast.literal_eval(spec["replay_case"])
            if rc is not None:      # None: import-failure witness, no case
                yield "replay", 0, rc
            return
        g = 0
        for cls, n in mod.plan(tier):
            for idx in range(n):
                g += 1
                if g % n_shards != shard:
                    continue
                yield cls, idx, None

    kept = {}
    for cls, idx, case in work():
        if True:
            rng = core.case_rng(seed, spec["prop"], cls, idx)
            try:
                if case is None:
                    case = mod.gen(cls, idx, rng, tier)
                if case is None:
                    ctx.outcomes["not-generated"] += 1
                    continue
                if track:
                    with open(argv[2] + ".cur", "w") as f:
                        json.dump(dict(cls=cls, idx=idx,
                                       case_repr=repr(case)), f)
                signal.alarm(case_limit)
                try:
                    outcome, viols = run_one(mod, case, ctx, cls, idx)
                finally:
                    signal.alarm(0)
            except CaseTimeout:
                result["errors"].append(dict(
                    cls=cls, idx=idx, tb="case exceeded the %d s wall-clock "
                    "watchdog (inconclusive, not a verdict)" % case_limit))
                break
            except MemoryError:
                result["errors"].append(dict(
                    cls=cls, idx=idx, tb="case exhausted the worker's memory "
                    "limit (inconclusive, not a verdict)"))
                break
            except Exception as e:
                # An exception that the check did not expect.  If it was
                # raised INSIDE the code under test (innermost frame under
                # the repository) it is that code failing on an input of the
                # property's domain: a violation with the case as witness.
                # Anything else is trouble in the harness: inconclusive.
                tb_ = e.__traceback__
                while tb_ is not None and tb_.tb_next is not None:
                    tb_ = tb_.tb_next
                where_ = tb_.tb_frame.f_code.co_filename if tb_ else ""
                if where_.startswith(os.path.join(core.REPO, "rig") + os.sep) \
                        and not getattr(mod, "REPO_EXCEPTIONS_ARE_HARNESS",
                                        False):
                    ctx.outcomes["violation:unexpected-exception"] += 1
                    outcome = "violation:unexpected-exception"
                    viols = [dict(kind="unexpected-exception", key=None,
                                  msg="%s: %s (raised in %s line %d)" % (
                                      type(e).__name__, e,
                                      os.path.relpath(where_, core.REPO),
                                      tb_.tb_lineno),
                                  detail=dict(traceback=core.format_tb(e)))]
                else:
                    result["errors"].append(dict(cls=cls, idx=idx,
                                                 tb=core.format_tb(e)))
                    if len(result["errors"]) > 20:
                        break
                    continue
            for v in viols:
                # records that carry the key of a listed finding are capped
                # per key, everything else on its own: thousands of
                # witnesses of a known finding must never crowd out a
                # violation found later in the shard
                bucket = "finding:%s" % v["key"] if v.get("key") else "other"
                kept[bucket] = kept.get(bucket, 0) + 1
                if kept[bucket] <= (40 if bucket == "other" else 12):
                    v.update(cls=cls, idx=idx, case_repr=repr(case),
                             ambient=spec.get("ambient", 0))
                    result["violations"].append(v)
                elif bucket == "other":
                    result["violations_dropped"] = \
                        result.get("violations_dropped", 0) + 1
                else:
                    fd = result.setdefault("findings_dropped", {})
                    fd[v["key"]] = fd.get(v["key"], 0) + 1
            if want_samples.get(cls, 0) < 1 and len(ctx.samples) < 6:
                want_samples[cls] = 1
                s = dict(cls=cls, idx=idx, outcome=outcome,
                         case=core.jsonable(case))
                if ctx.case_note is not None:
                    s["observed"] = core.jsonable(ctx.case_note)
                txt = json.dumps(s)
                if len(txt) > 6000:
                    s = dict(cls=cls, idx=idx, outcome=outcome,
                             case_truncated=txt[:6000])
                ctx.samples.append(s)
    if cov is not None:
        cov.stop()
        cov.save()
    if reach:
        reach.stop()
        result["anchors"] = reach.report()
    result.update(
        evaluations=ctx.evaluations, monitors=dict(ctx.monitors),
        outcomes=dict(ctx.outcomes), classes=dict(ctx.classes),
        nontrivial=sorted(ctx.nontrivial), samples=ctx.samples,
        extra=dict(ctx.extra),
        sets={k: sorted(v) for k, v in ctx.sets.items()},
        wall_s=time.time() - t0)
    json.dump(result, open(argv[2], "w"))
    return 0


if __name__ == "__main__":
    sys.exit(main(sys.argv))
