"""Zygote giving C17 its 'fresh interpreter': this process imports rig (and
the probe executor) but never calls into it; every probe is run in a child
forked from this pristine state, so it is the first library call that
interpreter image ever makes.

protocol: one line of JSON {"desc": repr(probe)} on stdin -> one line of JSON
{"result": ...} or {"error": "..."} on stdout."""
import ast
import json
import os
import sys
import traceback


def main():
    from . import core
    core.use_repo()
    from .props import c17
    c17.preload()
    out = sys.stdout
    for line in sys.stdin:
        line = line.strip()
        if not line:
            continue
        req = json.loads(line)
        r, w = os.pipe()
        pid = os.fork()
        if pid == 0:
            os.close(r)
            try:
                (tag, probe), seed = ast.literal_eval(req["desc"])
                res = dict(result=c17.execute(probe, None, False, seed))
            except BaseException as e:
                res = dict(error="%s: %s\n%s" % (type(e).__name__, e,
                                                 traceback.format_exc()[-1500:]))
            with os.fdopen(w, "w") as f:
                json.dump(res, f)
            os._exit(0)
        os.close(w)
        with os.fdopen(r) as f:
            data = f.read()
        os.waitpid(pid, 0)
        out.write((data or json.dumps(dict(error="child died"))) + "\n")
        out.flush()


if __name__ == "__main__":
    main()
