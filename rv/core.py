"""Shared vocabulary of the harness: violations, per-shard context (monitor
counters, non-triviality fingerprints, samples), JSON helpers, repo path."""
import collections
import hashlib
import os
import random
import sys
import traceback

REPO = os.environ.get("RIG_REPO", "/repo")
VERIF = os.path.dirname(os.path.dirname(os.path.abspath(__file__)))


def use_repo():
    """Put the repository under test first on sys.path and check that `rig`
    really comes from there."""
    if sys.path[0] != REPO:
        sys.path.insert(0, REPO)
    import rig
    got = os.path.realpath(os.path.dirname(rig.__file__))
    want = os.path.realpath(os.path.join(REPO, "rig"))
    if got != want:
        raise RuntimeError("rig imported from %s, expected %s" % (got, want))
    return rig


class Violation(Exception):
    """The oracle refuted the property on the current case."""

    def __init__(self, kind, msg="", **detail):
        Exception.__init__(self, "%s: %s" % (kind, msg))
        self.kind = kind
        self.msg = msg
        self.detail = detail


class Rejected(Exception):
    """The code under test refused the case in a documented way."""

    def __init__(self, how):
        Exception.__init__(self, how)
        self.how = how


def check(cond, kind, msg="", **detail):
    if not cond:
        raise Violation(kind, msg, **detail)


def jsonable(o, depth=0):
    """Lossy but readable JSON form (evidence samples, violation details)."""
    if depth > 12:
        return repr(o)[:200]
    if o is None or isinstance(o, (bool, int, float, str)):
        if isinstance(o, float) and (o != o or o in (float("inf"),
                                                     float("-inf"))):
            return repr(o)
        return o
    if isinstance(o, (bytes, bytearray)):
        h = bytes(o).hex()
        return "hex:" + (h if len(h) <= 128 else h[:128] + "...(%dB)" % len(o))
    if isinstance(o, dict):
        return {str(k) if not isinstance(k, str) else k:
                jsonable(v, depth + 1) for k, v in list(o.items())[:200]}
    if isinstance(o, (set, frozenset)):
        try:
            o = sorted(o)
        except TypeError:
            o = sorted(o, key=repr)
    if isinstance(o, (list, tuple)):
        out = [jsonable(v, depth + 1) for v in o[:200]]
        if len(o) > 200:
            out.append("...(%d items)" % len(o))
        return out
    return repr(o)[:300]


def fingerprint(o):
    return hashlib.sha1(repr(o).encode()).hexdigest()[:16]


def case_rng(seed, prop, cls, idx):
    h = hashlib.sha256(("%s|%s|%s|%s" % (seed, prop, cls, idx)).encode())
    return random.Random(int.from_bytes(h.digest()[:8], "big"))


class Ctx(object):
    """Per-shard observation record handed to every case."""

    def __init__(self):
        self.monitors = collections.Counter()   # monitor name -> evaluations
        self.outcomes = collections.Counter()
        self.classes = collections.Counter()
        self.nontrivial = set()                 # fingerprints
        self.samples = []
        self.extra = collections.Counter()      # free-form measured counts
        self.sets = collections.defaultdict(set)  # name -> distinct things
        self.evaluations = 0
        self.case_nontrivial = False
        self.case_note = None
        self.case_findings = []

    # -- called by property modules
    def finding(self, kind, key, msg="", **detail):
        """Record a deviation without aborting the case (the reference model
        re-synchronises and the history continues).  `key` names the
        mechanism; the runner reports it as KNOWN-FINDING only if that key is
        listed in known_findings.json, else as a VIOLATION."""
        if len(self.case_findings) < 5:
            self.case_findings.append(dict(kind=kind, msg=msg, key=key,
                                           detail=jsonable(detail)))

    def hit(self, monitor, n=1):
        self.monitors[monitor] += n

    def count(self, name, n=1):
        self.extra[name] += n

    def seen(self, name, thing):
        s = self.sets[name]
        if len(s) < 200000:
            s.add(thing if isinstance(thing, (str, int)) else fingerprint(thing))

    def mark_nontrivial(self, why=True):
        self.case_nontrivial = True

    def note(self, obj):
        """Attach a small observed trace/result to the sample of this case."""
        self.case_note = obj


def format_tb(exc):
    return "".join(traceback.format_exception(type(exc), exc,
                                              exc.__traceback__))[-4000:]
