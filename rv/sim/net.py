"""Virtual-time datagram network and the fake `socket`, `select` and `time`
modules that are bound into rig's I/O modules by the harness.

Nothing here sleeps or looks at the wall clock: the clock advances by 1 us per
`time()` call (models real progress; a strict `<` deadline comparison would
otherwise spin at now == deadline), `select` advances it to the next datagram
arrival or by the requested timeout, `sleep` advances it.

A *fault plan* decides the fate of every datagram the client transmits:
    plan(net, sock, data, n) -> list of outcomes, each one of
        ("lost",)                 request never reaches the machine
        ("ok", delay)             processed; reply arrives after rtt + delay
        ("reply_lost",)           processed; reply dropped
        ("dup", delay1, delay2)   processed once; reply delivered twice
        ("rc", code, delay)       not processed; reply carries return `code`
The default plan is [("ok", 0.0)].
"""
import heapq
import itertools
import struct


class VClock(object):
    def __init__(self, start=1.0e6):
        self.now = start
        self.reads = 0
        self.slept = 0.0
        self.tick = 1e-6        # what reading the clock costs (a slow host:
                                # set it to a millisecond)

    def time(self):
        self.now += self.tick
        self.reads += 1
        return self.now

    def sleep(self, t):
        self.now += max(0.0, t)
        self.slept += max(0.0, t)


CURRENT = [None]        # the Net new sockets attach to
CLOCK = VClock()        # one virtual clock per process (reset per case)


def new_clock():
    CLOCK.now, CLOCK.reads, CLOCK.slept = 1.0e6, 0, 0.0
    CLOCK.tick = 1e-6
    return CLOCK


class _SocketModule(object):
    """Stands in for the `socket` module inside rig: new sockets attach to
    the currently active Net."""
    AF_INET = 2
    SOCK_DGRAM = 2
    SOL_SOCKET = 1
    SO_REUSEADDR = 2
    error = OSError
    timeout = OSError

    @staticmethod
    def socket(*a, **k):
        return FakeSocket(CURRENT[0])

    @staticmethod
    def gethostbyname(name):
        parts = name.split(".")
        if len(parts) == 4 and all(p.isdigit() for p in parts):
            return name
        return "10.%d.%d.%d" % (sum(map(ord, name)) % 250,
                                len(name) % 250, ord(name[0]) % 250)


class _SelectModule(object):
    @staticmethod
    def select(r, w, x, timeout=None):
        clock = CLOCK
        for s in r:
            s.net.n_select += 1
            s.net.spend("select_budget")
        ready = [s for s in r if s.inq and s.inq[0][0] <= clock.now]
        if ready:
            return ready, [], []
        if timeout is None:
            nxt = [s.inq[0][0] for s in r if s.inq]
            if not nxt:
                raise RuntimeError("select() would block forever")
            clock.now = max(clock.now, min(nxt))
        else:
            if timeout < 0:
                # the real select() contract
                raise ValueError("timeout must be non-negative")
            deadline = clock.now + timeout
            nxt = [s.inq[0][0] for s in r if s.inq and
                   s.inq[0][0] <= deadline]
            clock.now = max(clock.now, min(nxt)) if nxt else deadline
        ready = [s for s in r if s.inq and s.inq[0][0] <= clock.now]
        return ready, [], []


class FakeSocket(object):
    def __init__(self, net):
        self.net = net
        self.inq = []           # heap of (arrival time, n, data)
        self.addr = None
        self.closed = False
        self.sent = 0
        self.index = len(net.sockets)
        net.sockets.append(self)

    # -- the subset of the socket API rig uses
    def connect(self, addr):
        self.addr = (addr[0], addr[1])

    def setblocking(self, flag):
        pass

    def settimeout(self, t):
        pass

    def setsockopt(self, *a):
        pass

    def bind(self, *a):
        pass

    def send(self, data):
        assert not self.closed, "send on closed socket"
        self.net.transmit(self, bytes(data))
        return len(data)

    def sendto(self, data, addr):
        self.addr = self.addr or (addr[0], addr[1])
        return self.send(data)

    t_last_recv = None          # when recv() was last called, whatever it did

    def recv(self, n):
        net = self.net
        self.t_last_recv = net.clock.now
        if self.inq and self.inq[0][0] <= net.clock.now:
            t, _, d = heapq.heappop(self.inq)
            out = d[:n]       # a datagram socket truncates to the buffer
            net.log.append(("recv", net.clock.now, self.index, d,
                            len(out) < len(d)))
            if len(out) < len(d):
                net.truncated += 1
            return out
        # what a non-blocking datagram socket with nothing to read raises
        import errno
        raise BlockingIOError(errno.EAGAIN, "Resource temporarily unavailable")

    def close(self):
        self.closed = True

    def fileno(self):
        return 1000 + self.index


class Net(object):
    def __init__(self, clock=None, rtt=0.002, reset_clock=True):
        self.clock = CLOCK
        if reset_clock and CURRENT[0] is None:
            new_clock()
        CURRENT[0] = self
        self.rtt = rtt
        self.hosts = {}         # host -> handler(sock, addr, data) -> reply/None
        self.default_handler = None
        self.plan = None
        self.log = []
        self.sockets = []
        self.n_tx = 0
        self.n_select = 0
        # bounded progress in logical steps: no case of any check sends or
        # polls anywhere near this often; a library loop that never ends
        # but keeps sending / polling becomes a verdict with a witness
        # instead of a wall-clock watchdog (which is inconclusive).  A
        # harness may set tighter budgets for one call.
        self.tx_budget = 600000
        self.select_budget = 4000000
        self.truncated = 0
        self._n = itertools.count()

    # ---- wiring
    def add_host(self, host, handler):
        self.hosts[host] = handler

    def activate(self):
        """New sockets (e.g. connections discovered later) attach here."""
        CURRENT[0] = self

    def socket_module(self):
        return _SocketModule

    def select_module(self):
        return _SelectModule

    # ---- traffic
    def spend(self, what):
        left = getattr(self, what) - 1
        setattr(self, what, left)
        if left < 0:
            from ..core import Violation
            setattr(self, what, 10 ** 9)    # report once, let it unwind
            raise Violation(
                "no-bounded-progress",
                "the call under test exceeded its budget of %s (%d datagrams "
                "sent, %d select() calls so far): it does not terminate in a "
                "bounded number of steps" % (
                    "transmissions" if what == "tx_budget" else
                    "select() calls", self.n_tx, self.n_select))

    def transmit(self, sock, data):
        self.spend("tx_budget")
        n = self.n_tx
        self.n_tx += 1
        sock.sent += 1
        self.log.append(("send", self.clock.now, sock.index, data))
        handler = self.hosts.get(sock.addr[0] if sock.addr else None,
                                 self.default_handler)
        outcomes = self.plan(self, sock, data, n) if self.plan else \
            [("ok", 0.0)]
        for out in outcomes:
            kind = out[0]
            self.log.append(("fate", self.clock.now, sock.index, n, out))
            if kind == "lost" or handler is None:
                continue
            if kind == "rc":
                reply = make_rc_reply(data, out[1])
                self.deliver(sock, reply, out[2])
                continue
            if kind == "replay":
                # a stale duplicate: the answer to an EARLIER request turns
                # up now
                reply = handler(sock, sock.addr, out[1])
                if reply is not None:
                    self.deliver(sock, reply, out[2])
                continue
            reply = handler(sock, sock.addr, data)
            if reply is None or kind == "reply_lost":
                continue
            if kind == "ok":
                self.deliver(sock, reply, out[1])
            elif kind == "dup":
                self.deliver(sock, reply, out[1])
                self.deliver(sock, reply, out[2])
            else:
                raise AssertionError(out)

    def deliver(self, sock, reply, delay):
        heapq.heappush(sock.inq, (self.clock.now + self.rtt + delay,
                                  next(self._n), reply))

    def bind(self, *modules):
        """Rebind socket/select/time in the given rig modules."""
        sm, sel = _SocketModule, _SelectModule
        self.activate()
        for m in modules:
            if hasattr(m, "socket"):
                m.socket = sm
            if hasattr(m, "select"):
                m.select = sel
            if hasattr(m, "time"):
                m.time = self.clock


def parse_scp(data):
    """-> dict of the fields of an SCP datagram (request or reply)"""
    (flags, tag, dpc, spc, dy, dx, sy, sx, cmd, seq) = struct.unpack_from(
        "<2x8B2H", data)
    return dict(flags=flags, tag=tag, dest_port=dpc >> 5, dest_cpu=dpc & 0x1f,
                src_port=spc >> 5, src_cpu=spc & 0x1f, dest_x=dx, dest_y=dy,
                src_x=sx, src_y=sy, cmd=cmd, seq=seq, body=data[14:],
                dpc=dpc, spc=spc)


def make_reply(req, rc, args=(), data=b"", src=None):
    """Build the reply datagram to the parsed request `req`."""
    sx, sy = src if src is not None else (req["dest_x"], req["dest_y"])
    return (struct.pack("<2x8B2H", 0x07, req["tag"], req["spc"], req["dpc"],
                        req["src_y"], req["src_x"], sy, sx, rc, req["seq"]) +
            b"".join(struct.pack("<I", a & 0xffffffff) for a in args) + data)


def make_rc_reply(data, rc):
    return make_reply(parse_scp(data), rc)
