"""Executable model of a SpiNNaker machine as seen through SCP (trusted base
of C07, C09, C10, C13, C14, C18).

Written from the documented layouts (packets.py / consts.py docstrings,
sark.struct, regions.py module docstring, the byte layouts spelled out in the
controller docstrings) - not by inverting the client code.

State per chip: sparse byte memory with a write log, `sv` and 18 `vcpu` blocks
laid out from sark.struct (own parser below), 1024 router entries plus the
`rtr_copy` mirror in memory, core states / application ids / loaded images,
P2P table packed 8 x 3 bits per word by column, SDRAM heap with tags, working
links, Ethernet facts.  Destination (255,255) addresses the chip the
connection is attached to.
"""
import os
import re
import struct

from . import net as simnet
from ..core import REPO

OK = 0x80
RC_ARG, RC_CMD, RC_ROUTE, RC_CPU = 0x84, 0x83, 0x87, 0x88

SV_BASE = 0xf5007f00
VCPU_BASE = 0xe5007000
SDRAM_SYS = 0x67800000
RTR_COPY = 0x67900000
ALLOC_TAG = 0x67a00000
HEAP_BASE = 0x60100000
HEAP_END = 0x67000000
RTR_P2P = 0xe1010000
RTR_DIAG = 0xe1000300
IOBUF_BASE = 0x67b00000

CMD = dict(sver=0, read=2, write=3, fill=5, link_read=17, link_write=18,
           nnp=20, signal=22, ffd=23, led=25, iptag=26, alloc=28, router=29,
           info=31)
IDLE, RUN, WAIT = 15, 7, 5


# ------------------------------------------------ independent struct parser
def parse_structs(path=None):
    """{struct: dict(size, base, fields={name: (packchar, offset, default,
    count)})} from sark.struct (perl pack letters: A=char[], c=int8, C=uint8,
    v=uint16, V=uint32)."""
    path = path or os.path.join(REPO, "rig", "boot", "sark.struct")
    out, cur = {}, None
    conv = {"C": "B", "c": "b", "v": "H", "V": "I"}
    for raw in open(path):
        line = raw.split("#")[0].split()
        if not line:
            continue
        if len(line) == 3 and line[1] == "=":
            key, _, val = line
            if key == "name":
                cur = out.setdefault(val, dict(size=None, base=None,
                                               fields={}))
            else:
                cur[key] = int(val, 0)
        elif len(line) == 5:
            name, pack, off, _, default = line
            m = re.match(r"(\w+)\[(\d+)\]$", name)
            count = 1
            if m:
                name, count = m.group(1), int(m.group(2))
            a = re.match(r"A(\d+)$", pack)
            ch = (a.group(1) + "s") if a else conv[pack]
            cur["fields"][name] = (ch, int(off, 0), int(default, 0), count)
    return out


_structs = {}


def structs():
    if not _structs:
        _structs.update(parse_structs())
    return _structs


def sv_field(name):
    ch, off, _, count = structs()["sv"]["fields"][name]
    return SV_BASE + off, ch, count


def vcpu_field(name, p, base=VCPU_BASE):
    ch, off, _, count = structs()["vcpu"]["fields"][name]
    return base + 128 * p + off, ch, count


# --------------------------------------------------------------------- chip
class Chip(object):
    vcpu_base = VCPU_BASE           # where this chip keeps its per-core blocks
    sdram_sys = SDRAM_SYS           # its system buffer
    rtr_copy = RTR_COPY             # its copy of the router tables

    def __init__(self, x, y, ncores=18):
        self.x, self.y = x, y
        self.mem = {}
        self.big_fills = []         # (start, end, word) of long word fills
        self.writes = []            # (addr, length) of every memory write
        self.ncores = ncores
        self.core_state = [RUN] + [IDLE] * (ncores - 1)
        self.core_app = [0] * ncores
        self.core_image = [None] * ncores
        self.links = set(range(6))
        self.sdram_free = 100 << 20
        self.sram_free = 20000
        self.router = [None] * 1024     # (route, key, mask, app, core)
        self.rtr_reserved = 1           # entry 0 is never handed out
        self.heap = HEAP_BASE
        self.allocs = {}                # ptr -> (size, tag, app)
        self.tags = {}                  # (app, tag) -> ptr
        self.eth_up = False
        self.ip = 0
        self.local_eth = (0, 0)
        self.silent = False             # in the P2P table but never answers
        self.alloc_fail = False
        self.rtr_fail = False
        self.leds = {}
        self.iptags = {}

    # -- memory
    BIG_FILL = 1 << 16      # word fills at least this long are kept sparsely

    def big_fill(self, a, n, word):
        """sark_word_set over a long range, kept as one record (the memory
        itself holds one entry per byte that was ever written)"""
        m = self.mem
        if len(m) < n:
            for k in [k for k in m if a <= k < a + n]:
                del m[k]
        else:
            for k in range(a, a + n):
                m.pop(k, None)
        self.big_fills.append((a, a + n, struct.pack("<I", word)))
        self.writes.append((a, n))

    def rd(self, a, n):
        if self.big_fills and any(s < a + n and a < e
                                  for s, e, _ in self.big_fills):
            out = bytearray(n)
            for s, e, w in self.big_fills:       # later fills win
                lo, hi = max(a, s), min(a + n, e)
                if lo < hi:
                    k = (lo - s) % 4
                    rep = (w[k:] + w[:k]) * ((hi - lo) // 4 + 2)
                    out[lo - a:hi - a] = rep[:hi - lo]
            m = self.mem
            if len(m) < n:
                for k, v in m.items():
                    if a <= k < a + n:
                        out[k - a] = v
            else:
                for i in range(n):
                    v = m.get(a + i)
                    if v is not None:
                        out[i] = v
            return bytes(out)
        m = self.mem
        RTR_COPY = self.rtr_copy
        if a + n <= RTR_COPY or a >= RTR_COPY + 16 * 1024:
            return bytes(m.get(a + i, 0) for i in range(n))
        # the router copy is synthesised from the router state on demand
        out = bytearray()
        for b in range(a, a + n):
            o = b - RTR_COPY
            if 0 <= o < 16 * 1024:
                out.append(self.rtr_copy_record(o // 16)[o % 16])
            else:
                out.append(m.get(b, 0))
        return bytes(out)

    _rec_cache = (None, None)

    def rtr_copy_record(self, i):
        if self._rec_cache[0] == (i, self.router[i]):
            return self._rec_cache[1]
        e = self.router[i]
        if e is None:
            rec = struct.pack("<2H3I", i, 0, 0xff000000, 0xffffffff, 0)
        else:
            route, key, mask, app, core = e
            rec = struct.pack("<2H3I", i, (core << 8) | app, route, key, mask)
        self._rec_cache = ((i, e), rec)
        return rec

    def wr(self, a, data, log=True):
        m = self.mem
        for i, b in enumerate(data):
            m[a + i] = b
        if log:
            self.writes.append((a, len(data)))

    def poke(self, a, fmt, *v):
        self.wr(a, struct.pack("<" + fmt, *v), log=False)

    # -- router helpers
    def largest_free_rtr_block(self):
        best = run = 0
        for i in range(self.rtr_reserved, 1024):
            if self.router[i] is None and i not in self.rtr_taken:
                run += 1
                best = max(best, run)
            else:
                run = 0
        return best

    rtr_taken = ()

    def sync_router_copy(self, lo=0, hi=1024):
        pass        # synthesised on demand by rd()


class Machine(object):
    """w x h chips (minus `dead`); SCP interpreter in `handle`."""

    def __init__(self, w, h, dead=(), buffer_size=256, root=(0, 0),
                 version=(3, 0, 1), legacy_version=False, labels="",
                 only=None):
        self.w, self.h = w, h
        self.buffer_size = buffer_size
        self.root = root
        self.version, self.legacy, self.labels = version, legacy_version, \
            labels
        if only is not None:
            self.chips = {tuple(xy): Chip(xy[0], xy[1]) for xy in only}
        else:
            self.chips = {(x, y): Chip(x, y) for x in range(w)
                          for y in range(h) if (x, y) not in set(dead)}
        self.eth_of_host = {}       # host name -> Ethernet chip
        self.cmds = []              # (cmd, (x, y, p), (a1, a2, a3), payload)
        self.arrivals = []          # (host, (dest_x, dest_y, p), cmd)
        self.replies = {}           # retransmission cache
        self.fill = None
        self.fills = []
        self.miss = []              # per fill: set of chips that ignore it
        self.signals = []
        self.protocol_errors = []   # things a real machine would choke on
        self.p2p_extra_none = set()  # live chips missing from the P2P table
        self.p2p_extra = set()      # dead/absent chips listed in P2P table
        self.exec_count = 0
        self.finalise()

    # ------------------------------------------------------------- set-up
    def finalise(self):
        """(Re)write sv / vcpu / P2P / router mirrors of every chip from the
        Python-level state.  Call after editing chip attributes."""
        for c in self.chips.values():
            c.poke(sv_field("p2p_addr")[0], "H", c.x << 8 | c.y)
            c.poke(sv_field("p2p_dims")[0], "H", self.w << 8 | self.h)
            c.poke(sv_field("num_cpus")[0], "B", c.ncores)
            c.poke(sv_field("sdram_sys")[0], "I", c.sdram_sys)
            c.poke(sv_field("vcpu_base")[0], "I", c.vcpu_base)
            c.poke(sv_field("rtr_copy")[0], "I", c.rtr_copy)
            c.poke(sv_field("alloc_tag")[0], "I", ALLOC_TAG)
            c.poke(sv_field("iobuf_size")[0], "I", getattr(c, "iobuf_size",
                                                           64))
            c.poke(sv_field("eth_addr")[0], "H",
                   c.local_eth[0] << 8 | c.local_eth[1])
            c.poke(sv_field("eth_up")[0], "B", 1 if c.eth_up else 0)
            c.poke(sv_field("ip_addr")[0], "I", c.ip)
            c.poke(sv_field("p2p_root")[0], "H",
                   self.root[0] << 8 | self.root[1])
            self.sync_vcpu(c)
            c.sync_router_copy()
            self.write_p2p(c)
            c.writes = []

    def diversify(self, salt=0):
        """Give every chip its own addresses for the structures rig finds
        through pointers in the system variables (real chips need not agree
        on them), then rewrite the mirrors."""
        for (x, y), c in self.chips.items():
            k = (x * 3 + y * 5 + salt) % 7
            c.vcpu_base = VCPU_BASE + 0x1000 * k
            c.sdram_sys = SDRAM_SYS + 0x8000 * ((k + 2) % 5)
            c.rtr_copy = RTR_COPY + 0x8000 * ((k + 3) % 4)
        self.finalise()

    def sync_vcpu(self, c):
        for p in range(c.ncores):
            b = c.vcpu_base
            c.poke(vcpu_field("cpu_state", p, b)[0], "B", c.core_state[p])
            c.poke(vcpu_field("app_id", p, b)[0], "B", c.core_app[p])
            c.poke(vcpu_field("phys_cpu", p, b)[0], "B", p)

    p2p_blind = {}      # {chip: chips missing from THAT chip's table}

    def p2p_entry(self, src, x, y):
        """3-bit P2P route on chip `src` towards (x, y)"""
        if (x, y) in self.p2p_extra_none:
            return 6
        if (x, y) in self.p2p_blind.get((src.x, src.y), ()):
            return 6        # this chip (only) has lost its route there
        if (x, y) not in self.chips and (x, y) not in self.p2p_extra:
            return 6
        if (x, y) == (src.x, src.y):
            return 7
        dx, dy = x - src.x, y - src.y
        if dx > 0 and dy > 0:
            return 1
        if dx < 0 and dy < 0:
            return 4
        if dx > 0:
            return 0
        if dx < 0:
            return 3
        return 2 if dy > 0 else 5

    def write_p2p(self, c):
        # column x starts at word (256 * x) / 8; each word holds 8 rows
        for x in range(self.w):
            for w0 in range((self.h + 7) // 8):
                word = 0
                for e in range(8):
                    y = w0 * 8 + e
                    v = self.p2p_entry(c, x, y) if y < self.h else 6
                    word |= v << (3 * e)
                c.poke(RTR_P2P + 4 * (32 * x + w0), "I", word)

    def set_core(self, xy, p, state, app=0):
        c = self.chips[xy]
        c.core_state[p], c.core_app[p] = state, app
        self.sync_vcpu(c)

    unroutable_replies = 0

    def attach(self, netw, host, eth_chip=(0, 0)):
        self.eth_of_host[host] = eth_chip
        netw.add_host(host, self.handle)

    # ------------------------------------------------------------ SCP side
    def handle(self, sock, addr, data):
        req = simnet.parse_scp(data)
        host = addr[0]
        eth = self.eth_of_host.get(host, (0, 0))
        key = (sock.index, req["seq"], data)
        if key in self.replies:
            return self.replies[key]
        dx, dy = req["dest_x"], req["dest_y"]
        if (dx, dy) == (255, 255):
            dx, dy = eth
        p = req["dest_cpu"]
        self.arrivals.append((host, (req["dest_x"], req["dest_y"], p),
                              req["cmd"]))
        chip = self.chips.get((dx, dy))
        if chip is None:
            reply = simnet.make_reply(req, RC_ROUTE, src=eth)
            self.replies[key] = reply
            return reply
        if chip.silent:
            return None
        body = req["body"] + b"\0" * 12
        a = struct.unpack_from("<3I", body)
        payload = req["body"][12:]
        self.cmds.append((req["cmd"], (dx, dy, p), a, payload))
        self.exec_count += 1
        if p >= chip.ncores:
            rc, args, rdata = RC_CPU, (), b""
        else:
            rc, args, rdata = self.execute(chip, p, req["cmd"], a, payload)
        reply = simnet.make_reply(req, rc, args, rdata, src=(dx, dy))
        # SDP routes the reply to the request's source address.  The host
        # behind the Ethernet link is (port 7, virtual core 31), reached
        # through the reply tag 0xff; a request that names another source
        # (or does not ask for a reply) gets its answer delivered to some
        # core of the machine - the host never sees it.
        # (and SCP is served on SDP port 0 of a core: a datagram for another
        # port is handed to whatever application listens there)
        if not req["flags"] & 0x80 or req["src_port"] != 7 or \
                req["src_cpu"] != 31 or req["tag"] != 0xff or \
                req["dest_port"] != 0:
            self.unroutable_replies += 1
            reply = None
        self.replies[key] = reply
        return reply

    version_name = b"SC&MP/SpiNNaker"

    def perr(self, msg):
        self.protocol_errors.append(msg)

    def execute(self, chip, p, cmd, a, payload):
        a1, a2, a3 = a
        if cmd == CMD["sver"]:
            arg1 = ((chip.x << 8 | chip.y) << 16) | (p << 8) | p
            if self.legacy:
                ver = self.version[0] * 100 + self.version[1]
                return OK, (arg1, ver << 16 | self.buffer_size, 1400000000), \
                    self.version_name + b"\0"
            vs = "%d.%d.%d%s" % (self.version + (self.labels,))
            return OK, (arg1, 0xffff << 16 | self.buffer_size, 1400000000), \
                self.version_name + b"\0" + vs.encode() + b"\0"
        if cmd == CMD["read"]:
            if a2 > self.buffer_size:
                self.perr("read of %d bytes exceeds buffer %d" %
                          (a2, self.buffer_size))
                return RC_ARG, (), b""
            if not self.dtype_ok(a1, a2, a3):
                self.perr("read addr %#x len %d with access type %d" %
                          (a1, a2, a3))
                return RC_ARG, (), b""
            return OK, (), chip.rd(a1, a2)
        if cmd == CMD["write"]:
            if a2 > self.buffer_size or a2 != len(payload):
                self.perr("write len %d payload %d buffer %d" %
                          (a2, len(payload), self.buffer_size))
                return RC_ARG, (), b""
            if not self.dtype_ok(a1, a2, a3):
                self.perr("write addr %#x len %d with access type %d" %
                          (a1, a2, a3))
                return RC_ARG, (), b""
            chip.wr(a1, payload)
            return OK, (), b""
        if cmd == CMD["fill"]:
            if a1 % 4 or a3 % 4:
                self.perr("fill addr %#x len %d not word aligned" % (a1, a3))
                return RC_ARG, (), b""
            # sark_word_set: the 32-bit value is stored to every word
            if a3 >= chip.BIG_FILL:
                chip.big_fill(a1, a3, a2)
            else:
                chip.wr(a1, struct.pack("<I", a2) * (a3 // 4))
            return OK, (), b""
        if cmd in (CMD["link_read"], CMD["link_write"]):
            if a3 > 5 or a1 % 4 or a2 % 4 or a2 > self.buffer_size:
                self.perr("link access addr %#x len %d link %d" % (a1, a2, a3))
                return RC_ARG, (), b""
            dx, dy = [(1, 0), (1, 1), (0, 1), (-1, 0), (-1, -1), (0, -1)][a3]
            n = self.chips.get(((chip.x + dx) % self.w,
                                (chip.y + dy) % self.h))
            if n is None or a3 not in chip.links:
                return 0x8e, (), b""            # timeout across the link
            if cmd == CMD["link_read"]:
                return OK, (), n.rd(a1, a2)
            if a2 != len(payload):
                self.perr("link_write len %d payload %d" % (a2, len(payload)))
                return RC_ARG, (), b""
            n.wr(a1, payload)
            return OK, (), b""
        if cmd == CMD["info"]:
            arg1 = (chip.ncores | sum(1 << (8 + l) for l in chip.links) |
                    min(chip.largest_free_rtr_block(), 0x7ff) << 14 |
                    (1 << 25 if chip.eth_up else 0))
            states = chip.core_state + [0] * (18 - chip.ncores)
            d = struct.pack("<18BHI", *(states + [
                chip.local_eth[0] << 8 | chip.local_eth[1], chip.ip]))
            return OK, (arg1, chip.sdram_free, chip.sram_free), d
        if cmd == CMD["alloc"]:
            return self.alloc(chip, a1, a2, a3)
        if cmd == CMD["router"]:
            return self.router_cmd(chip, a1, a2, a3)
        if cmd == CMD["signal"]:
            return self.signal(chip, a1, a2, a3)
        if cmd == CMD["nnp"]:
            return self.nnp(chip, a1, a2, a3)
        if cmd == CMD["ffd"]:
            return self.ffd(chip, a1, a2, a3, payload)
        if cmd == CMD["led"]:
            for led in range(16):
                act = (a1 >> (2 * led)) & 3
                if act:
                    chip.leds[led] = act
            return OK, (), b""
        if cmd == CMD["iptag"]:
            op, tag = a1 >> 16, a1 & 0xffff
            if op == 1:
                chip.iptags[tag] = (a3, a2)
                return OK, (), b""
            if op == 3:
                chip.iptags.pop(tag, None)
                return OK, (), b""
            if op == 2:
                ip, port = chip.iptags.get(tag, (0, 0))
                d = struct.pack("<4s6s3HI2HB", struct.pack("<I", ip),
                                b"\1\2\3\4\5\6", port, 0,
                                0x8000 if tag in chip.iptags else 0, 0, 0, 0,
                                0)
                return OK, (), d
        self.perr("unknown command %d" % cmd)
        return RC_CMD, (), b""

    @staticmethod
    def dtype_ok(addr, n, t):
        if t == 2:
            return addr % 4 == 0 and n % 4 == 0
        if t == 1:
            return addr % 2 == 0 and n % 2 == 0
        return t == 0

    # ------------------------------------------------------ alloc / router
    def alloc(self, chip, a1, a2, a3):
        op, app = a1 & 0xff, (a1 >> 8) & 0xff
        if op == 0:                                     # alloc SDRAM
            size, tag = a2, a3
            if (chip.alloc_fail or size == 0 or
                    (tag and (app, tag) in chip.tags) or
                    chip.heap + size > HEAP_END or tag > 255):
                return OK, (0,), b""
            ptr = chip.heap
            chip.heap += (size + 3) & ~3
            chip.allocs[ptr] = (size, tag, app)
            if tag:
                chip.tags[(app, tag)] = ptr
                chip.poke(ALLOC_TAG + 4 * ((app << 8) + tag), "I", ptr)
            return OK, (ptr,), b""
        if op == 1:                                     # free by pointer
            rec = chip.allocs.pop(a2, None)
            if rec is None:
                self.perr("free of unallocated pointer %#x" % a2)
                return OK, (0,), b""
            if rec[1]:
                chip.tags.pop((rec[2], rec[1]), None)
                chip.poke(ALLOC_TAG + 4 * ((rec[2] << 8) + rec[1]), "I", 0)
            return OK, (1,), b""
        if op == 3:                                     # alloc router block
            n = a2
            if chip.rtr_fail or n == 0:
                return OK, (0,), b""
            run = 0
            for i in range(chip.rtr_reserved, 1024):
                if chip.router[i] is None and i not in chip.rtr_taken:
                    run += 1
                    if run == n:
                        base = i - n + 1
                        chip.rtr_taken = set(chip.rtr_taken) | set(
                            range(base, i + 1))
                        chip.rtr_owner = getattr(chip, "rtr_owner", {})
                        for j in range(base, i + 1):
                            chip.rtr_owner[j] = app
                        return OK, (base,), b""
                else:
                    run = 0
            return OK, (0,), b""
        if op == 5:                                     # free router by app
            for i in range(1024):
                e = chip.router[i]
                if (e is not None and e[3] == app) or \
                        getattr(chip, "rtr_owner", {}).get(i) == app:
                    chip.router[i] = None
                    chip.rtr_taken = set(chip.rtr_taken) - {i}
                    getattr(chip, "rtr_owner", {}).pop(i, None)
            chip.sync_router_copy()
            return OK, (1,), b""
        self.perr("unsupported alloc op %d" % op)
        return RC_ARG, (), b""

    def router_cmd(self, chip, a1, a2, a3):
        count, app, op = a1 >> 16, (a1 >> 8) & 0xff, a1 & 0xff
        if op != 2:
            self.perr("unsupported router op %d" % op)
            return RC_ARG, (), b""
        base = a3
        if base < 1 or base + count > 1024:
            self.perr("router load outside table: base %d count %d" %
                      (base, count))
            return RC_ARG, (), b""
        for i in range(count):
            nxt, free, route, key, mask = struct.unpack(
                "<2H3I", chip.rd(a2 + 16 * i, 16))
            idx = base + nxt
            if not (base <= idx < base + count):
                self.perr("router record %d has index %d outside block" %
                          (i, nxt))
                return RC_ARG, (), b""
            if idx not in chip.rtr_taken:
                self.perr("router entry %d loaded but never allocated" % idx)
            chip.router[idx] = (route, key, mask, app, 0)
        chip.sync_router_copy(base, base + count)
        return OK, (), b""

    # ------------------------------------------------------------- signals
    def signal(self, chip, a1, a2, a3):
        self.signals.append((a1, a2, a3))
        if a1 == 1:                                     # P2P diagnostics
            op, state = (a2 >> 20) & 3, (a2 >> 16) & 0xf
            app_mask, app = (a2 >> 8) & 0xff, a2 & 0xff
            hits = total = 0
            for c in self.chips.values():
                for q in range(c.ncores):
                    if (c.core_app[q] & app_mask) == (app & app_mask) and \
                            c.core_app[q] != 0:
                        total += 1
                        hits += c.core_state[q] == state
            if op == 2:
                return OK, (hits,), b""
            if op == 1:
                return OK, (int(total > 0 and hits == total),), b""
            return OK, (int(hits > 0),), b""
        sig, app_mask, app = (a2 >> 16) & 0xff, (a2 >> 8) & 0xff, a2 & 0xff
        for c in self.chips.values():
            for q in range(1, c.ncores):
                if c.core_app[q] == 0 or \
                        (c.core_app[q] & app_mask) != (app & app_mask):
                    continue
                if sig == 3 and c.core_state[q] == WAIT:
                    c.core_state[q] = RUN
                elif sig == 2:
                    c.core_state[q] = IDLE
                    c.core_app[q] = 0
                    c.core_image[q] = None
                elif sig == 6 and c.core_state[q] == RUN:
                    c.core_state[q] = 10
                elif sig == 7 and c.core_state[q] == 10:
                    c.core_state[q] = RUN
            self.sync_vcpu(c)
        return OK, (), b""

    # ---------------------------------------------------------- flood fill
    def nnp(self, chip, a1, a2, a3):
        op = a1 >> 24
        if op == 6:                                     # start
            self.fill = dict(pid=(a1 >> 16) & 0xff, n=(a1 >> 8) & 0xff,
                             blocks={}, sel=[], order=["ffs"], dup_blocks=0,
                             fwd=0x3f)
        if self.fill is not None:
            # links each chip passes the packet on through (forward mask)
            self.fill["fwd"] &= (a3 >> 8) & 0x3f
        if op == 6:
            pass
        elif self.fill is None:
            self.perr("flood-fill packet %d outside a fill" % op)
        elif op == 7:                                   # core select
            if self.fill["order"][-1] not in ("ffs", "ffcs"):
                self.perr("core select after data")
            self.fill["sel"].append((a2, a1 & 0x3ffff))
            self.fill["order"].append("ffcs")
        elif op == 15:                                  # end
            self.fill["order"].append("ffe")
            self.finish_fill((a2 >> 24) & 0xff, (a2 >> 18) & 0x3f, a1 & 0xff)
        else:
            self.perr("unknown nn command %d" % op)
        return OK, (), b""

    def ffd(self, chip, a1, a2, a3, payload):
        if self.fill is None:
            self.perr("flood-fill data outside a fill")
            return OK, (), b""
        block, size, pid = (a2 >> 16) & 0xff, (a2 >> 8) & 0xff, a1 & 0xff
        f = self.fill
        f["fwd"] &= (a1 >> 24) & 0x3f
        if pid != f["pid"]:
            self.perr("data block with id %d inside fill %d" % (pid, f["pid"]))
        if len(payload) > self.buffer_size:
            self.perr("data block of %d bytes exceeds buffer %d" %
                      (len(payload), self.buffer_size))
        if (size + 1) * 4 != len(payload):
            self.perr("data block announces %d words, carries %d bytes" %
                      (size + 1, len(payload)))
        if block in f["blocks"]:
            f["dup_blocks"] += 1
        f["blocks"][block] = (a3, payload)
        f["order"].append("ffd%d" % block)
        return OK, (), b""

    def finish_fill(self, app, flags, pid):
        f = self.fill
        self.fill = None
        idx = len(self.fills)
        self.fills.append(f)
        f["app"], f["flags"], f["end_pid"] = app, flags, pid
        complete = (sorted(f["blocks"]) == list(range(f["n"])) and
                    pid == f["pid"])
        f["complete"] = complete
        f["image"] = b"".join(f["blocks"][b][1] for b in sorted(f["blocks"]))
        f["selected"] = select_cores(f["sel"])
        if getattr(self, "miss_fn", None) is not None:
            miss = self.miss_fn(f)
        else:
            miss = self.miss[idx] if idx < len(self.miss) else set()
        # chips ignore a fill that repeats the identifier of the previous one
        # (nearest-neighbour duplicate suppression, sv.last_id)
        if getattr(self, "last_fill_id", None) == f["pid"]:
            miss = set(self.chips)
            f["ignored_as_duplicate"] = True
        self.last_fill_id = f["pid"]
        if f["fwd"] != 0x3f:
            # a fill not forwarded over every link floods only what can be
            # reached from the root through the links it IS forwarded over
            vec = [(1, 0), (1, 1), (0, 1), (-1, 0), (-1, -1), (0, -1)]
            seen, todo = {self.root}, [self.root]
            while todo:
                x, y = todo.pop()
                for l in range(6):
                    if f["fwd"] >> l & 1 and l in self.chips[(x, y)].links:
                        n = ((x + vec[l][0]) % self.w, (y + vec[l][1]) % self.h)
                        if n in self.chips and n not in seen:
                            seen.add(n)
                            todo.append(n)
            miss = set(miss) | (set(self.chips) - seen)
            f["not_flooded"] = sorted(set(self.chips) - seen)
        f["missed_by"] = set(miss)
        if not complete:
            return
        for (xy, c) in f["selected"]:
            chip = self.chips.get(xy)
            if chip is None or xy in miss or c >= chip.ncores or c == 0:
                continue
            chip.core_image[c] = f["image"]
            chip.core_app[c] = app
            chip.core_state[c] = WAIT if flags & 1 else RUN
        for chip in self.chips.values():
            self.sync_vcpu(chip)


def decode_region(region):
    """chips selected by a region word (documented layout)"""
    level = (region >> 16) & 3
    bx = (region >> 24) & 0xff
    by = (region >> 16) & 0xfc
    size = 1 << (6 - 2 * level)
    for b in range(16):
        if region >> b & 1:
            ox, oy = bx + (b & 3) * size, by + (b >> 2) * size
            for x in range(ox, ox + size):
                for y in range(oy, oy + size):
                    yield (x, y)


def select_cores(sel):
    out = set()
    for region, mask in sel:
        cores = [c for c in range(18) if mask >> c & 1]
        for xy in decode_region(region):
            for c in cores:
                out.add((xy, c))
    return out


# ----------------------------------------------------------------- harness
class Rig(object):
    """A real MachineController wired to a Machine through the virtual
    network."""

    def __init__(self, machine, plan=None, n_tries=5, timeout=0.5, rtt=0.002,
                 **kw):
        import importlib
        sc = importlib.import_module("rig.machine_control.scp_connection")
        mcm = importlib.import_module(
            "rig.machine_control.machine_controller")
        self.sc, self.mcm = sc, mcm
        self.net = simnet.Net(rtt=rtt)
        self.net.plan = plan
        self.machine = machine
        machine.attach(self.net, "eth-root", machine.root)
        self.net.bind(sc, mcm)
        self.mc = mcm.MachineController("eth-root", n_tries=n_tries,
                                        timeout=timeout, **kw)

    @property
    def clock(self):
        return self.net.clock

    def activate(self):
        self.net.activate()
