"""A real MachineController talking to the machine model over *real* UDP
sockets on the loopback interface.

The virtual network (net.py) replaces socket/select/time inside rig; anything
rig gets wrong only against the operating system's datagram sockets (receive
buffer sizes, truncation, select semantics, blocking behaviour) would be
invisible there.  This variant runs the same machine model behind a real UDP
server thread with real loss / duplication / delay injected by the server.
Verdicts on these runs are about *data* only; wall-clock effects (a
TimeoutError because the box was busy) are never violations.
"""
import importlib
import random
import select as real_select
import socket as real_socket
import threading
import time as real_time


class _Peer(object):
    """what Machine.handle needs to know about the sending socket"""

    def __init__(self, index):
        self.index = index


class _NetShim(object):
    def __init__(self):
        self.n_tx = 0           # datagrams that arrived at the server
        self.fates = {}
        self.log = []


class RealRig(object):
    def __init__(self, machine, faults=None, seed=0, n_tries=6, timeout=0.04,
                 **kw):
        sc = importlib.import_module("rig.machine_control.scp_connection")
        mcm = importlib.import_module(
            "rig.machine_control.machine_controller")
        self.sc, self.mcm = sc, mcm
        # undo any virtual binding left by earlier cases in this process
        for m in (sc, mcm):
            if hasattr(m, "socket"):
                m.socket = real_socket
            if hasattr(m, "select"):
                m.select = real_select
            if hasattr(m, "time"):
                m.time = real_time
        self.machine = machine
        self.net = _NetShim()
        self.faults = dict(faults or {})
        self.rng = random.Random(seed)
        self.timeout = timeout
        self.srv = real_socket.socket(real_socket.AF_INET,
                                      real_socket.SOCK_DGRAM)
        self.srv.bind(("127.0.0.1", 0))
        self.srv.settimeout(0.05)
        self.port = self.srv.getsockname()[1]
        machine.eth_of_host["127.0.0.1"] = machine.root
        self.stop = False
        self.error = None
        self.peers = {}
        self.thread = threading.Thread(target=self._serve, daemon=True)
        self.thread.start()
        self.mc = mcm.MachineController("127.0.0.1", scp_port=self.port,
                                        n_tries=n_tries, timeout=timeout,
                                        **kw)

    def _fate(self):
        f, r = self.faults, self.rng.random()
        for kind in ("lost", "reply_lost", "dup", "late"):
            p = f.get(kind, 0.0)
            if r < p:
                return kind
            r -= p
        return "ok"

    def _serve(self):
        try:
            while not self.stop:
                try:
                    data, addr = self.srv.recvfrom(65536)
                except real_socket.timeout:
                    continue
                except OSError:
                    return
                self.net.n_tx += 1
                fate = self._fate()
                self.net.fates[fate] = self.net.fates.get(fate, 0) + 1
                if fate == "lost":
                    continue
                peer = self.peers.setdefault(addr, _Peer(len(self.peers)))
                reply = self.machine.handle(peer, ("127.0.0.1", addr[1]),
                                            data)
                if reply is None or fate == "reply_lost":
                    continue
                if fate == "late":          # later than one timeout
                    real_time.sleep(self.timeout * 1.3)
                self.srv.sendto(reply, addr)
                if fate == "dup":
                    self.srv.sendto(reply, addr)
        except Exception as e:              # model trouble: report, not hide
            self.error = e

    def close(self):
        self.stop = True
        self.thread.join(2.0)
        try:
            self.srv.close()
        except OSError:
            pass
        for c in getattr(self.mc, "connections", {}).values():
            try:
                c.close()
            except Exception:
                pass

    def activate(self):
        pass
