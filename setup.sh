#!/bin/sh
# Offline setup: nothing to install (stdlib + /venv's numpy/cffi only).
# Pre-builds the ASan+UBSan copy of the rig_c_sa kernel used by C02 (the
# check rebuilds it itself if the cache is missing).
cd "$(dirname "$0")" || exit 1
/venv/bin/python -c "import sys; assert sys.version_info >= (3, 12), sys.version" || exit 1
if [ -f rv/asan_build.py ]; then
    PYTHONPATH=. /venv/bin/python -m rv.asan_build || echo "warning: ASan build failed (C02 will report it)"
fi
exit 0
